"""unit `indent`: regexp.rs::indent_regexp -- the indentation of a verbose-mode line is decided by the line WITHOUT its colour codes (C15: stripping the
SGR sequences from the highlighted output gives the plain output, indentation included; C06: the verbose layout is the same in both modes).

Slices (R7) of the body of `for (i, line) in regexp.lines().enumerate()`:
  indent_close : the `let` statements of the body + the `if` that decrements nesting_level (everything in front of `let indentation`)
  indent_open  : the same `let` statements + the `if` that increments nesting_level (the last statement of the body)
Specification (from the property): with p = the line stripped of its colour codes,
  the level goes down before the line iff level > 0 and (p == "$" or p starts with ')'), and up after it iff p == "^" or (i > 0 and p starts with '(').
"""
import re
from vx.assemble import Builder, Clause
from vx import extract as X, rustlex as L
from units import smallslices as S

P = ['C15', 'C06']
SGR_LITERAL = r'"\u{1b}\\[(?:\\d+;\\d+|0)m"'        # the pattern the self-check already uses to strip colour codes (regexp.rs)

PRELUDE = r'''
pub struct Regex { pub x: u8 }
// the line without its colour codes
pub uninterp spec fn strip_sgr(s: Seq<char>) -> Seq<char>;
// a line that does not start with an escape sequence and is one of the bare tokens below is what it looks like (nothing to strip)
pub broadcast axiom fn axiom_strip_plain(s: Seq<char>)
    requires s.len() == 0 || s[0] != '\u{1b}'
    ensures #[trigger] strip_sgr(s) == s;
#[verifier::external_body] pub fn vx_strip_sgr(re: &Regex, line: &str) -> (r: String) ensures r@ == strip_sgr(line@) { unimplemented!() }
#[verifier::external_body] pub fn vx_str_eq_lit(a: &str, b: &str) -> (r: bool) ensures r == (a@ == b@) { unimplemented!() }
#[verifier::external_body] pub fn vx_str_starts_with_str(a: &str, b: &str) -> (r: bool) ensures r == (a@.len() >= b@.len() && a@.subrange(0, b@.len() as int) == b@) { unimplemented!() }
#[verifier::external_body] pub fn vx_string_starts_with_char(s: &String, c: char) -> (r: bool) ensures r == (s@.len() > 0 && s@[0] == c) { unimplemented!() }
#[verifier::external_body] pub fn vx_string_contains_char(s: &String, c: char) -> (r: bool) ensures r == s@.contains(c) { unimplemented!() }
pub open spec fn closes_plain(p: Seq<char>) -> bool { p == "$"@ || (p.len() > 0 && p[0] == ')') }
pub open spec fn opens_plain(p: Seq<char>, i: usize) -> bool { p == "^"@ || (i > 0 && p.len() > 0 && p[0] == '(') }
'''

def build(repo, spec_dir, canary=False):
    b = Builder('indent', repo, canary)
    b.emit('use vstd::prelude::*;\nverus! {')
    b.emit(S.HELPERS)
    b.emit('pub mod ind {\nuse super::*;'); b.emit(PRELUDE); b.emit('}\nuse ind::*;')
    b.emit('broadcast use ind::axiom_strip_plain;')
    rx = b.src('regexp.rs')
    f, _, _ = X.fn(rx, 'indent_regexp')
    k = f.find('for (i, line) in regexp.lines().enumerate()')
    if k < 0: raise X.LostAnchor('regexp.rs::indent_regexp loop over the lines')
    bo = L.body_open(f, k); inner = f[bo + 1:L.match_close(f, bo)]
    st = [inner[a:e].strip() for a, e in L.split_stmts(inner)]
    ki = [i for i, t in enumerate(st) if t.startswith('let indentation')]
    if len(ki) != 1: raise X.LostAnchor('regexp.rs::indent_regexp `let indentation`')
    before = st[:ki[0]]
    # drop the statements that do not take part in the decision: the start-anchor adjustment and the skip of empty lines (both in front of the first `let`)
    first_let = [i for i, t in enumerate(before) if t.startswith('let ')]
    lets = [t for t in before if t.startswith('let ')]
    closing = [t for t in before[(first_let[0] if first_let else 0):] if t.startswith('if ')]
    opening = [t for t in st[ki[0] + 1:] if t.startswith('if ')]
    if len(closing) != 1 or len(opening) != 1: raise X.LostAnchor('regexp.rs::indent_regexp: the two `if` statements that change nesting_level')
    # a Regex built in front of the loop to strip colour codes must be built from the literal the self-check uses
    pre_loop = f[:k]
    has_regex = 'color_replace_regex' in ' '.join(lets)
    if has_regex and ('Regex::new(%s)' % SGR_LITERAL) not in pre_loop:
        raise X.LostAnchor('regexp.rs::indent_regexp: color_replace_regex is not Regex::new(%s)' % SGR_LITERAL)
    rules = [('R32', r'\bcolor_replace_regex\.replace_all\((\w+), ""\)', r'vx_strip_sgr(color_replace_regex, \1)', 'Regex::replace_all(line, "") with the colour-code pattern: the line without its SGR sequences (uninterpreted strip_sgr)'),
             ('R12', r'\bline == ("(?:[^"\\]|\\.)*")', r'vx_str_eq_lit(line, \1)', '&str == &str'),
             ('R12', r'\bplain_line == ("(?:[^"\\]|\\.)*")', r'vx_string_eq_lit(&plain_line, \1)', 'Cow<str> == &str (as String)'),
             ('R12', r'\bline\.starts_with\(("(?:[^"\\]|\\.)*")\)', r'vx_str_starts_with_str(line, \1)', 'str::starts_with(&str)'),
             ('R12', r'\bvx_str_(starts_with|contains|ends_with)_char\(plain_line, ', r'vx_str_\1_char(&plain_line, ', 'the receiver is an owned string here (Cow<str> modelled as String): borrow it')]
    params = 'line: &str, i: usize, nesting_level0: usize' + (', color_replace_regex: &Regex' if has_regex else '')
    body = lambda ifs: '    let mut nesting_level = nesting_level0;\n' + '\n'.join('    ' + t for t in lets + ifs) + '\n    nesting_level'
    b.slice_fn('indent_close', 'pub fn indent_close(%s) -> (r: usize)' % params, body(closing),
               'regexp.rs::indent_regexp loop body: the `let` statements and the `if` that decrements nesting_level', props=['C07'], extra_rules=rules,
               clauses=[Clause('indent.close_decided_by_the_line_without_colour', 'r == (if nesting_level0 > 0 && closes_plain(strip_sgr(line@)) { (nesting_level0 - 1) as usize } else { nesting_level0 })', P)])
    b.slice_fn('indent_open', 'pub fn indent_open(%s) -> (r: usize)' % params, body(opening),
               'regexp.rs::indent_regexp loop body: the `let` statements and the `if` that increments nesting_level', props=['C07'], extra_rules=rules,
               requires=['nesting_level0 < usize::MAX'],
               clauses=[Clause('indent.open_decided_by_the_line_without_colour', 'r == (if opens_plain(strip_sgr(line@), i) { (nesting_level0 + 1) as usize } else { nesting_level0 })', P)])
    from units import sgrpatterns
    sgrpatterns.emit(b, rx, P)
    b.emit('} // verus!\nfn main() {}')
    b.trusted += ['strip_sgr is uninterpreted: Regex::replace_all with the pattern %s removes exactly the colour codes component.rs writes (ESC [ n;n m and ESC [ 0 m); a line that does not start with ESC has nothing to strip when it is compared with the bare tokens' % SGR_LITERAL,
                  'only the two per-line decisions are under contract; the loop over lines(), the start-anchor adjustment, the skip of empty lines and the join are not (nesting_level stays below the number of lines, hence below usize::MAX)',
                  'that the highlighted rendering of a line, stripped of its colour codes, is the plain rendering of that line is decided per component in unit render']
    return b
