"""Unit `render`: component.rs and quantifier.rs under the formatting model (C04 flags, C08 anchors, C13 braces, C06 group syntax, C15 colour wrap)."""
import re
from vx.assemble import Builder, Clause
from vx import extract as X, dialect as D
from units import verbose as VB

def fmt_pre(text, log, where):
    return D.expand_format_macros(text, log, where)

def spec_literals(spec_dir):
    return sorted(set(re.findall(r'("(?:[^"\\\n]|\\.)*")@', open(spec_dir + '/render.rs').read())))

def build(repo, spec_dir, canary=False):
    b = Builder('render', repo, canary)
    LITS = spec_literals(spec_dir)
    b.emit('#![feature(allocator_api)]\nuse vstd::prelude::*;\nuse std::collections::BTreeSet;\nverus! {')
    b.type_item('quantifier.rs', r'^pub enum Quantifier \{')
    b.type_item('component.rs', r'^pub\(crate\) enum Component \{')
    b.emit('pub mod fm {\nuse super::*;'); b.emit(open(spec_dir + '/fmt_model.rs').read()); b.emit('}\nuse fm::*;')
    b.emit('pub mod sp {\nuse super::*;'); b.emit(open(spec_dir + '/render.rs').read()); b.emit('}\nuse sp::*;')
    b.emit('pub mod rm {\nuse super::*;'); b.emit(open(spec_dir + '/replace_model.rs').read()); b.emit('}\nuse rm::*;')
    b.emit('''impl VxShow for Quantifier { open spec fn shown(&self) -> Seq<char> { quant_plain(*self) } #[verifier::external_body] fn vx_show(&self) -> (r: String) { unimplemented!() } }
impl VxShow for Component { open spec fn shown(&self) -> Seq<char> { plain(*self) } #[verifier::external_body] fn vx_show(&self) -> (r: String) { unimplemented!() } }
pub assume_specification [<Quantifier as Clone>::clone] (e: &Quantifier) -> (r: Quantifier) ensures r == *e;''')
    # Display for Quantifier / Component: the fmt bodies as inherent methods vx_fmt (R18)
    def display_fn(f, ty, spec, props, label, extra_rules=(), guard='', impl=None):
        t, _, _ = X.fn(b.src(f), 'fmt', within=r'^impl Display for %s \{' % (impl or ty))
        where = '%s::Display for %s' % (f, ty)
        t = D.strip_attrs_and_docs(t, b.log, where)
        t = D.apply_rules(t, b.log, where, extra_rules)
        t = fmt_pre(t, b.log, where)
        t = b.reveal_literals(t, LITS, where)
        t = re.sub(r'\bfn fmt\b', 'pub fn vx_fmt', t, count=1)
        b.log.add('R18', where, 'impl Display for %s { fn fmt' % ty, 'impl %s { pub fn vx_fmt' % ty)
        sig, body = b._split_sig(t)
        sig = b._name_ret(sig)
        first = b.lineno()
        b.emit(sig)
        b._emit_contract(ty + '::fmt', [], [Clause(label, '%sfinal(f)@ =~= old(f)@ + %s && r is Ok' % (guard, spec), props)], None, props)
        b.emit('    ' + body.lstrip())
        b.fn_ranges.append((first, b.lineno() - 1, ty + '::fmt', ['C07'], ty + '::fmt.safety'))
        b.obligations.append((ty + '::fmt.safety', ['C07']))
    b.emit('impl Quantifier {')
    display_fn('quantifier.rs', 'Quantifier', 'quant_plain(*self)', ['C02', 'C16'], 'render.quantifier_plain')
    b.emit('}\nimpl Component {')
    display_fn('component.rs', 'Component', 'plain(*self)', ['C04', 'C08', 'C13', 'C06', 'C15'], 'render.component_plain')
    CO = r'^impl Component \{'
    src = b.src('component.rs')
    b.verified_fn('component.rs', 'color_code', within=CO, props=['C07'], fname='Component::color_code', extra_rules=[], pre=fmt_pre, reveal=LITS,
                  clauses=[Clause('render.color_code', '!is_escaped ==> r@ == sgr(code@, value@)', ['C15'])])
    helpers = re.findall(r'fn ([a-z_]+)\(value: &str, is_escaped: bool\) -> String \{\s*Self::color_code\(', src)
    for h in helpers:
        b.verified_fn('component.rs', h, within=CO, props=['C07'], fname='Component::' + h, pre=fmt_pre, reveal=LITS,
                      clauses=[Clause('render.%s' % h, '!is_escaped ==> wrapped(r@, value@)', ['C15'])])
    b.verified_fn('component.rs', 'to_colored_string', within=CO, props=['C07'], fname='Component::to_colored_string', pre=fmt_pre, reveal=LITS,
                  decreases='(if is_group(*self) { 1int } else { 0int })',
                  clauses=[Clause('render.colored_adds_only_colour', '!is_escaped ==> colored_ok(r@, *self)', ['C15', 'C04', 'C08'])])
    b.verified_fn('component.rs', 'to_repr', within=CO, props=['C07'], fname='Component::to_repr', pre=fmt_pre, reveal=LITS,
                  clauses=[Clause('render.repr_plain', '!is_output_colorized ==> r@ =~= plain(*self)', ['C04', 'C08', 'C13', 'C06', 'C15']),
                           Clause('render.repr_colored', 'is_output_colorized ==> colored_ok(r@, *self)', ['C15', 'C04', 'C08'])])
    b.emit('}')
    # ---- Display for Grapheme: value, group iff not a single atom, {n} / {m,n} iff quantified (C13, C06, C01)
    b.type_item('grapheme.rs', r'^pub struct Grapheme \{')
    b.emit("""#[verifier::external_body] pub fn vx_count_char(s: &String, c: char) -> (r: usize) ensures r == count_char(s@, c) { unimplemented!() }
#[verifier::external_body] pub fn vx_join_shown(gs: &Vec<Grapheme>) -> (r: String) ensures r@ == joined_shown(gs@) { unimplemented!() }
pub uninterp spec fn is_class_token(s: Seq<char>) -> bool;
#[verifier::external_body] pub fn vx_is_class_token(s: &String) -> (r: bool) ensures r == is_class_token(s@) { unimplemented!() }
// verified in unit atom: r ==> the text is one escape sequence (F13); here only WHICH branch Display takes matters
#[verifier::external_body] pub fn is_single_escape_sequence(s: &str) -> (r: bool) ensures r == single_escape(s@) { unimplemented!() }
impl Grapheme {""")
    G = r'^impl Grapheme \{'
    b.assumed_fn('grapheme.rs', 'value', within=G, ensures=['r@ == joined(self.chars@)'], why='Vec<String>::join (std)')
    b.assumed_fn('grapheme.rs', 'char_count', within=G, ensures=['r == char_count_spec(*self, is_non_ascii_char_escaped)'], why='iterator chains; number of code points of the (escaped) value')
    display_fn('grapheme.rs', 'Grapheme', 'grapheme_plain(*self)', ['C13', 'C06', 'C01', 'C05', 'C16'], 'render.grapheme_plain', guard='!self.is_output_colorized ==> ',
               extra_rules=[('R19', r"self\.chars\[0\]\.matches\(('(?:\\.|[^'\\])')\)\.count\(\)", r'vx_count_char(&self.chars[0], \1)', 'str::matches(char).count()'),
                            ('R19', r'self\s*\.repetitions\s*\.iter\(\)\s*\.map\(\|it\| it\.to_string\(\)\)\s*\.join\(""\)', 'vx_join_shown(&self.repetitions)', 'iter().map(to_string).join(""): concatenation of the Display renderings, in order'),
                            ('R19', r'CHAR_CLASSES\.contains\(&&\*value\)', 'vx_is_class_token(&value)', 'membership in the constant CHAR_CLASSES (affects colour only)')])
    b.emit('}')
    # ---- Display for RegExp: flag / anchors / outer group (C04, C08, C06)
    b.type_item('config.rs', r'^pub struct RegExpConfig \{')
    rx = b.src('regexp.rs')
    disp, _, _ = X.item(rx, r"^impl Display for RegExp<'_> \{")
    stm = '\n        '.join(X.let_stmt(disp, v)[0] for v in ['flag', 'caret', 'dollar_sign'])
    b.type_item('cluster.rs', r"^pub struct GraphemeCluster<'a> \{")
    b.type_item('expression.rs', r"^pub enum Expression<'a> \{")
    b.type_item('regexp.rs', r"^pub struct RegExp<'a> \{")
    b.emit("""pub uninterp spec fn ast_text(a: Expression) -> Seq<char>;      // Display for Expression (format.rs): opaque in this unit
impl<'a> VxShow for Expression<'a> { open spec fn shown(&self) -> Seq<char> { ast_text(*self) } #[verifier::external_body] fn vx_show(&self) -> (r: String) { unimplemented!() } }
pub open spec fn repr_ok(r: Seq<char>, c: Component, colorized: bool) -> bool { if colorized { colored_ok(r, c) } else { r =~= plain(c) } }
impl<'a> RegExp<'a> {""")
    cfg = 'self.config.'
    b.slice_fn('display_prefix', 'pub fn display_prefix(&self) -> (r: (String, String, String))', '        ' + stm, 'regexp.rs::Display for RegExp let flag/caret/dollar_sign',
               props=['C07'], epilogue='        (flag, caret, dollar_sign)', pre=fmt_pre, clauses=[
        Clause('display.flag', '(if %sis_case_insensitive_matching && %sis_verbose_mode_enabled { repr_ok(r.0@, Component::IgnoreCaseAndVerboseModeFlag, %sis_output_colorized) } else if %sis_case_insensitive_matching { repr_ok(r.0@, Component::IgnoreCaseFlag, %sis_output_colorized) } else if %sis_verbose_mode_enabled { repr_ok(r.0@, Component::VerboseModeFlag, %sis_output_colorized) } else { r.0@.len() == 0 })' % ((cfg,) * 7), ['C04', 'C06']),
        Clause('display.caret', 'if %sis_start_anchor_disabled { r.1@.len() == 0 } else { repr_ok(r.1@, Component::Caret(%sis_verbose_mode_enabled), %sis_output_colorized) }' % ((cfg,) * 3), ['C08']),
        Clause('display.dollar', 'if %sis_end_anchor_disabled { r.2@.len() == 0 } else { repr_ok(r.2@, Component::DollarSign(%sis_verbose_mode_enabled), %sis_output_colorized) }' % ((cfg,) * 3), ['C08'])])
    # the statement that assembles flag + caret + body + dollar_sign, with the outer group around a top-level alternation
    st, _, _ = X.let_stmt(disp, 'regexp')
    b.slice_fn('display_assemble', 'pub fn display_assemble(&self, flag: String, caret: String, dollar_sign: String) -> (regexp: String)', '        ' + st, 'regexp.rs::Display for RegExp let mut regexp = match self.ast {..}',
               props=['C07'], epilogue='        regexp', pre=fmt_pre, clauses=[
        Clause('display.assemble', 'exists|body: Seq<char>| #[trigger] (flag@ + caret@ + body + dollar_sign@) == regexp@ && (if self.ast is Alternation { group_ok(body, %sis_capturing_group_enabled, ast_text(self.ast), %sis_verbose_mode_enabled, false, %sis_output_colorized) } else { body =~= ast_text(self.ast) })' % (cfg, cfg, cfg), ['C08', 'C06', 'C02'])])
    b.emit('}')
    VB.emit(b, disp, fmt_pre)
    b.emit('} // verus!\nimpl Clone for Quantifier { fn clone(&self) -> Self { unimplemented!() } }\nfn main() {}')
    b.trusted += ['formatting model (rule R16): format!/write! with {} holes concatenate the Display renderings of their arguments in order; X.to_string() is the Display rendering (blanket ToString)',
                  'decimal rendering of u32 is uninterpreted (`dec`); derived Clone on Quantifier structural',
                  'R18: a Display::fmt body is verified as an inherent method with the same body (trait-impl methods cannot carry contracts in Verus)']
    return b
