"""Unit `dfa` / `dfa_kf`: Dfa::recreate_graph and Dfa::insert under contract, petgraph as a specified stand-in."""
from vx.assemble import Builder, Clause

def common_inv_hash(it, outer):
    ks = 'into_iter_hash_keys(%s.snapshot@)' % it
    return ['%s.to_set() == p@[%s.index@]@' % (ks, outer), '%s.no_duplicates()' % ks, '%s.seq().len() == %s.len()' % (it, ks),
            '(forall|i: int| 0 <= i < %s.seq().len() ==> *#[trigger] %s.seq()[i] == %s[i])' % (it, it, ks)]

def loops(kf):
    FS = ('recreate.finals_sound', ['C01', 'C16'], 'finals_sound(state_mappings@, self.final_state_indices@, final_state_indices@)')
    FE = ('recreate.finals_exact', ['C02', 'C16'], 'finals_exact(state_mappings@, self.final_state_indices@, final_state_indices@)')
    def F_at(n):
        base = FS if kf else FE
        return [(base[0] + '@loop%d' % n, base[1], base[2])]
    RCT = 'reps_copied(p@, it3.index@, state_mappings@, self.graph.edges(), graph.edges(), self.final_state_indices@, final_state_indices@)'
    RC = [] if kf else [('recreate.reps_copied@loop3', ['C01', 'C02', 'C16'], RCT)]
    RC4 = [] if kf else [('recreate.reps_copied@loop4', ['C01', 'C02', 'C16'], RCT)]
    l1 = ['seq_is(it1.seq(), p@)', 'pairwise_disjoint(p@)', 'graph.edges() == Map::<(State, State), Grapheme>::empty()',
          'state_mappings@.dom() == union_upto(p@, it1.index@)', 'dom_ok(state_mappings@, graph.nodes())',
          'state_mappings@.contains_key(self.initial_state) ==> new_initial_state == Some(state_mappings@[self.initial_state])'] + F_at(1) + ['*self == *old(self)']
    ks = 'into_iter_hash_keys(it2.snapshot@)'
    l2 = ['seq_is(it1.seq(), p@)', '0 <= it1.index@ < p@.len()', 'equivalence_class == it1.seq()[it1.index@]', '**it1.seq()[it1.index@] == *p@[it1.index@]',
          'equivalence_class@ == p@[it1.index@]@'] + common_inv_hash('it2', 'it1') + ['pairwise_disjoint(p@)',
          'graph.edges() == Map::<(State, State), Grapheme>::empty()', 'graph.nodes().contains(new_state)',
          'state_mappings@.dom() == union_upto(p@, it1.index@).union(keys_upto(%s, it2.index@))' % ks, '0 <= it2.index@ <= it2.seq().len()',
          'it2.index@ == it2.seq().len() ==> keys_upto(%s, it2.index@) == p@[it1.index@]@' % ks, 'dom_ok(state_mappings@, graph.nodes())',
          'state_mappings@.contains_key(self.initial_state) ==> new_initial_state == Some(state_mappings@[self.initial_state])'] + F_at(2) + ['*self == *old(self)']
    req = ['forall|j: int| 0 <= j < p@.len() ==> (#[trigger] p@[j])@.len() > 0 && p@[j]@.finite()',
           'forall|a: State, b: State| #[trigger] self.graph.edges().contains_key((a, b)) ==> union_upto(p@, p@.len() as int).contains(b)']
    l3 = ['seq_is(it3.seq(), p@)'] + RC + req + ['state_mappings@.dom() == union_upto(p@, p@.len() as int)', 'dom_ok(state_mappings@, graph.nodes())',
          'new_initial_state == Some(state_mappings@[self.initial_state])'] + F_at(3) + ['*self == *old(self)']
    els = 'into_iter_elts(it4.snapshot@)'
    l4 = ['seq_is(it3.seq(), p@)', '0 <= it3.index@ < p@.len()', 'it4.seq() == %s' % els, 'nb_ok(%s, old_source_state, self.graph.edges())' % els] + RC4 + [
          'p@[it3.index@]@.contains(old_source_state)', '0 <= it4.index@ <= it4.seq().len()'] + ([] if kf else [
          ('recreate.edges_and_marks_copied@loop4', ['C01', 'C02', 'C16'], 'processed(%s, it4.index@, old_source_state, state_mappings@, graph.edges(), self.final_state_indices@, final_state_indices@)' % els)]) + [req[1],
          'state_mappings@.contains_key(old_source_state)', '*new_source_state == state_mappings@[old_source_state]',
          'state_mappings@.dom() == union_upto(p@, p@.len() as int)', 'dom_ok(state_mappings@, graph.nodes())',
          'new_initial_state == Some(state_mappings@[self.initial_state])'] + F_at(4) + ['*self == *old(self)']
    return {1: l1, 2: l2, 3: l3, 4: l4}

def blocks(kf):
    P1 = '''            proof {
                assert(0 <= it1.index@ < p@.len());
                assert(equivalence_class == it1.seq()[it1.index@]);
                assert(**equivalence_class == *p@[it1.index@]);
            }'''
    P2 = '''                let ghost m0 = state_mappings@;
                let ghost f0 = final_state_indices@;
                proof {
                    let ks = into_iter_hash_keys(it2.snapshot@);
                    let q = it2.index@;
                    assert(*old_state == ks[q]);
                    lemma_disjoint_fresh(p@, it1.index@, ks, q);
                    assert(!state_mappings@.contains_key(*old_state));
                }'''
    P3 = '''                proof {
                    let ks = into_iter_hash_keys(it2.snapshot@);
                    let q = it2.index@;
                    lemma_keys_upto_step(ks, q);''' + ('' if kf else '''
                    assert forall|u: usize| #[trigger] final_state_indices@.contains(u) implies
                        exists|s: State| #[trigger] state_mappings@.contains_key(s) && self.final_state_indices@.contains(s.ix as usize) && state_mappings@[s].ix as usize == u by {
                        if f0.contains(u) {
                            let s0 = choose|s: State| #[trigger] m0.contains_key(s) && self.final_state_indices@.contains(s.ix as usize) && m0[s].ix as usize == u;
                            assert(state_mappings@.contains_key(s0) && state_mappings@[s0] == m0[s0]);
                        } else {
                            assert(state_mappings@.contains_key(*old_state));
                        }
                    }''') + '''
                }'''
    P4 = '''            proof {
                assert(0 <= it3.index@ < p@.len());
                assert(equivalence_class == it3.seq()[it3.index@]);
                assert(**equivalence_class == *p@[it3.index@]);
                lemma_union_upto_mono(p@, it3.index@, p@.len() as int);
                assert(p@[it3.index@]@.len() > 0);
            }'''
    P5 = '''                let ghost e0 = graph.edges();
                let ghost f0 = final_state_indices@;
                proof {
                    assert(it4.seq().contains(old_target_state)) by { assert(it4.seq()[it4.index@] == old_target_state); }
                    assert(self.graph.edges().contains_key((old_source_state, old_target_state)));
                    assert(state_mappings@.contains_key(old_target_state));
                }'''
    P6 = '' if kf else '''                proof {
                    lemma_reps_mono(p@, it3.index@, state_mappings@, self.graph.edges(), e0, graph.edges(), self.final_state_indices@, f0, final_state_indices@);
                    let els = into_iter_elts(it4.snapshot@);
                    lemma_processed_mono(els, it4.index@, old_source_state, state_mappings@, e0, graph.edges(), self.final_state_indices@, f0, final_state_indices@);
                    assert(els[it4.index@] == old_target_state);
                }'''
    P7 = '''        proof {
            assert(state_mappings@.dom() == union_upto(p@, p@.len() as int));
''' + ('            assert(finals_sound(state_mappings@, old(self).final_state_indices@, self.final_state_indices@));\n' if kf else
       '            assert(finals_exact(state_mappings@, old(self).final_state_indices@, self.final_state_indices@));\n            assert(reps_copied(p@, p@.len() as int, state_mappings@, old(self).graph.edges(), self.graph.edges(), old(self).final_state_indices@, self.final_state_indices@));\n') + '        }'
    bl = [(1, 'loop_start', P1), (2, 'loop_start', P2), (2, 'loop_end', P3), (3, 'loop_start', P4), (4, 'loop_start', P5)]
    if P6: bl.append((4, 'loop_end', P6))
    bl.append((None, 'fn_end', P7))
    return bl

# the contract of recreate_graph (non-KF clauses); unit `minimize` assumes exactly this text at its call site
RECREATE_REQ = ['forall|j: int| 0 <= j < p@.len() ==> (#[trigger] p@[j])@.len() > 0 && p@[j]@.finite()', 'pairwise_disjoint(p@)',
                'union_upto(p@, p@.len() as int).contains(old(self).initial_state)',
                'forall|a: State, b: State| #[trigger] old(self).graph.edges().contains_key((a, b)) ==> union_upto(p@, p@.len() as int).contains(b)']
RECREATE_POST = ('exists|m: Map<State, State>| m.dom() == union_upto(p@, p@.len() as int) && final(self).initial_state == m[old(self).initial_state]'
                 ' && #[trigger] finals_exact(m, old(self).final_state_indices@, final(self).final_state_indices@) && reps_copied(p@, p@.len() as int, m, old(self).graph.edges(), final(self).graph.edges(), old(self).final_state_indices@, final(self).final_state_indices@)')

def build(repo, spec_dir, kf=False, canary=False):
    b = Builder('dfa_kf' if kf else 'dfa', repo, canary)
    b.emit('#![feature(allocator_api)]\nuse vstd::prelude::*;\nuse vstd::std_specs::cmp::*;\nuse vstd::std_specs::iter::IteratorSpec;\nuse vstd::std_specs::hash::*;\nuse vstd::std_specs::vec::*;\nuse std::collections::{BTreeSet, HashMap, HashSet};\nverus! {')
    b.emit('broadcast use {vstd::std_specs::hash::group_hash_axioms, axiom_nodeindex_key_model, lem::lemma_first_key_in_set, sp::lemma_processed_all};')
    b.type_item('config.rs', r'^pub struct RegExpConfig \{')
    b.type_item('grapheme.rs', r'^pub struct Grapheme \{')
    b.emit(open(spec_dir + '/petgraph_standin.rs').read())
    b.emit('use pg::*;\ntype State = NodeIndex<u32>;\ntype StateLabel = String;\ntype EdgeLabel = Grapheme;')
    b.emit('pub assume_specification [<Grapheme as Clone>::clone] (e: &Grapheme) -> (r: Grapheme) ensures r == *e;')
    b.emit('pub mod sp {\nuse super::*;'); b.emit(open(spec_dir + '/dfa.rs').read()); b.emit('}\nuse sp::*;')
    # C10: which member of a class stands for it must not depend on the iteration order of the HashSet (per-process hash seeds)
    b.emit('''pub uninterp spec fn set_min(s: Set<State>) -> State;      // the least / greatest element under NodeIndex's Ord: functions of the SET
pub uninterp spec fn set_max(s: Set<State>) -> State;
#[verifier::external_body] pub fn vx_set_min(s: &HashSet<State>) -> (r: &State) requires s@.len() > 0 ensures s@.contains(*r), *r == set_min(s@) { unimplemented!() }
#[verifier::external_body] pub fn vx_set_max(s: &HashSet<State>) -> (r: &State) requires s@.len() > 0 ensures s@.contains(*r), *r == set_max(s@) { unimplemented!() }''')
    b.type_item('dfa.rs', r"^pub struct Dfa<'a> \{")
    b.type_item('cluster.rs', r"^pub struct GraphemeCluster<'a> \{")
    b.emit("impl<'a> GraphemeCluster<'a> {")
    b.verified_fn('cluster.rs', 'graphemes', within="^impl<'a> GraphemeCluster<'a> \\{", clauses=[Clause('cluster.graphemes', '*r == self.graphemes', ['C01'])], props=['C07'], fname='GraphemeCluster::graphemes')
    b.emit("}\nimpl<'a> Dfa<'a> {")
    D = "^impl<'a> Dfa<'a> \\{"
    req = RECREATE_REQ
    F, F2 = 'old(self).final_state_indices@', 'final(self).final_state_indices@'
    if kf:
        post = 'exists|m: Map<State, State>| m.dom() == union_upto(p@, p@.len() as int) && #[trigger] finals_sound(m, %s, %s)' % (F, F2)
        cl = [Clause('recreate.finals_sound', post, ['C01', 'C16'])]
    else:
        post = RECREATE_POST
        cl = [Clause('recreate.initial_exact_edges', post, ['C01', 'C02', 'C16'])]
    R31 = [('R31', r'\b(\w+)\.iter\(\)\.min\(\)\.unwrap\(\)', r'vx_set_min(\1)', 'HashSet::iter().min().unwrap(): the least element (requires a non-empty set)'),
           ('R31', r'\b(\w+)\.iter\(\)\.max\(\)\.unwrap\(\)', r'vx_set_max(\1)', 'HashSet::iter().max().unwrap(): the greatest element (requires a non-empty set)')]
    bls = [tuple(x) + ((('recreate.finals_sound', ['C01', 'C16']) if kf else ('recreate.initial_exact_edges', ['C01', 'C02', 'C16'])),) for x in blocks(kf)]
    if not kf:
        bls.append(('let new_source_state', 'before', '            proof { assert(old_source_state == set_min(equivalence_class@) || old_source_state == set_max(equivalence_class@)); }',
                    ('recreate.representative_independent_of_hash_order', ['C10'])))
    b.verified_fn('dfa.rs', 'recreate_graph', within=D, requires=req, clauses=cl, props=['C07', 'C01', 'C02', 'C16'], loops=loops(kf), blocks=bls, extra_rules=R31, fname='Dfa::recreate_graph')
    b.emit('}\n} // verus!\nimpl Clone for Grapheme { fn clone(&self) -> Self { unimplemented!() } }\nimpl PartialEq for Grapheme { fn eq(&self, o: &Self) -> bool { unimplemented!() } }\nimpl Eq for Grapheme {}\nimpl PartialOrd for Grapheme { fn partial_cmp(&self, o: &Self) -> Option<std::cmp::Ordering> { unimplemented!() } }\nimpl Ord for Grapheme { fn cmp(&self, o: &Self) -> std::cmp::Ordering { unimplemented!() } }\nfn main() {}')
    b.trusted += ['petgraph stand-in (StableGraph::{new, add_node, add_edge, neighbors, find_edge, edge_weight}, NodeIndex::index) with ghost nodes/edges; NodeIndex obeys the hash-key model',
                  'preconditions of recreate_graph (non-empty, pairwise disjoint, covering classes) are proved at its call site in unit minimize',
                  'derived Clone on Grapheme is structural']
    return b


# ---------------------------------------------------------------------------------------------------------------------
# unit `trie`: Dfa::insert / return_next_state / find_next_state / add_new_state (stage S2a: the trie accepts every inserted word)
PRELUDE_TYPES = '''pub uninterp spec fn ascii_fold(s: Seq<char>) -> Seq<char>;
pub assume_specification [str::eq_ignore_ascii_case] (a: &str, b: &str) -> (r: bool) ensures r == (ascii_fold(a@) == ascii_fold(b@));
// std::cmp::{min, max} at u32 (dfa.rs imports them by name): specified stand-ins
#[verifier::external_body] pub fn min(a: u32, b: u32) -> (r: u32) ensures r == (if a <= b { a } else { b }) { unimplemented!() }
#[verifier::external_body] pub fn max(a: u32, b: u32) -> (r: u32) ensures r == (if a >= b { a } else { b }) { unimplemented!() }
// a label carries its own copy of the three output flags; they must be the configuration's (C06: the group kind and the mode that were requested)
pub open spec fn cfg_flags(g: Grapheme, c: RegExpConfig) -> bool {
    g.is_capturing_group_enabled == c.is_capturing_group_enabled && g.is_output_colorized == c.is_output_colorized && g.is_verbose_mode_enabled == c.is_verbose_mode_enabled
}
'''

def build_trie(repo, spec_dir, canary=False):
    b = Builder('trie', repo, canary)
    b.emit('#![feature(allocator_api)]\nuse vstd::prelude::*;\nuse vstd::std_specs::cmp::*;\nuse vstd::std_specs::hash::*;\nuse vstd::std_specs::vec::*;\nuse std::collections::{BTreeSet, HashMap, HashSet};\nverus! {')
    b.emit('broadcast use {vstd::std_specs::hash::group_hash_axioms, axiom_nodeindex_key_model, sp::lemma_scanned_all};')
    b.type_item('config.rs', r'^pub struct RegExpConfig \{')
    b.type_item('grapheme.rs', r'^pub struct Grapheme \{')
    b.emit(open(spec_dir + '/petgraph_standin.rs').read())
    b.emit('use pg::*;\ntype State = NodeIndex<u32>;\ntype StateLabel = String;\ntype EdgeLabel = Grapheme;')
    b.emit('pub assume_specification [<Grapheme as Clone>::clone] (e: &Grapheme) -> (r: Grapheme) ensures r == *e;')
    b.emit('pub mod sp {\nuse super::*;'); b.emit(open(spec_dir + '/dfa.rs').read()); b.emit('}\nuse sp::*;')
    b.type_item('dfa.rs', r"^pub struct Dfa<'a> \{")
    b.type_item('cluster.rs', r"^pub struct GraphemeCluster<'a> \{")
    b.emit(PRELUDE_TYPES)
    G = r'^impl Grapheme \{'
    b.emit('impl Grapheme {')
    b.assumed_fn('grapheme.rs', 'value', within=G, ensures=['r@ == joined(self.chars@)'], why='Vec<String>::join (std); uninterpreted `joined`')
    for name, ens in [('chars', '*r == self.chars'), ('minimum', 'r == self.min'), ('maximum', 'r == self.max')]:
        b.verified_fn('grapheme.rs', name, within=G, clauses=[Clause('grapheme.%s' % name, ens, ['C16'])], props=['C07'], fname='Grapheme::' + name)
    b.verified_fn('grapheme.rs', 'new', within=G, props=['C07'], fname='Grapheme::new',
                  clauses=[Clause('grapheme.new', 'r.chars == chars && r.min == min && r.max == max && r.repetitions@.len() == 0', ['C16', 'C13']),
                           Clause('grapheme.new_flags', 'r.is_capturing_group_enabled == is_capturing_group_enabled && r.is_output_colorized == is_output_colorized && r.is_verbose_mode_enabled == is_verbose_mode_enabled', ['C06'])])
    b.emit("}\nimpl<'a> GraphemeCluster<'a> {")
    b.verified_fn('cluster.rs', 'graphemes', within="^impl<'a> GraphemeCluster<'a> \\{", clauses=[Clause('cluster.graphemes', '*r == self.graphemes', ['C01'])], props=['C07'], fname='GraphemeCluster::graphemes')
    b.emit("}\nimpl<'a> Dfa<'a> {")
    D = "^impl<'a> Dfa<'a> \\{"
    O, N = 'old(self)', 'final(self)'
    OE, NE = 'old(self).graph.edges()', 'final(self).graph.edges()'
    frame = '%s.initial_state == %s.initial_state && %s.final_state_indices == %s.final_state_indices' % (N, O, N, O)
    inv = lambda s: 'edges_closed(%s.graph.edges(), %s.graph.nodes()) && %s.graph.nodes().contains(%s.initial_state) && edges_wf(%s.graph.edges())' % (s, s, s, s, s)
    S, X = ['C01', 'C16'], ['C16', 'C05']            # S: soundness view (labels may only be widened), X: exactness view (labels never change)
    # find_next_state: R14 (continue).  Soundness: a reused edge covers the inserted label and every old edge keeps covering its old label.
    # Exactness (what "the trie accepts exactly the union" needs): an edge is reused only for the SAME label and no edge is relabelled.
    b.verified_fn('dfa.rs', 'find_next_state', within=D, props=['C07'], fname='Dfa::find_next_state', desugar_continue=True,
                  requires=[inv(O), '%s.graph.nodes().contains(current_state)' % O, 'exact_label(*grapheme)'],
                  clauses=[Clause('find_next_state.frame', frame + ' && %s.graph.nodes() == %s.graph.nodes()' % (N, O), S),
                           Clause('find_next_state.found_covering_label', 'r is Some ==> %s.contains_key((current_state, r->Some_0)) && label_covers(%s[(current_state, r->Some_0)], *grapheme)' % (NE, NE), ['C01', 'C03', 'C16']),
                           Clause('find_next_state.only_widens', 'edges_cover(%s, %s) && %s.dom() == %s.dom() && edges_wf(%s)' % (OE, NE, NE, OE, NE), S),
                           Clause('find_next_state.no_relabel', '%s == %s' % (NE, OE), X),
                           Clause('find_next_state.relabel_only_by_upward_merge', '%s != %s ==> r is Some && %s.contains_key((current_state, r->Some_0)) && joined(%s[(current_state, r->Some_0)].chars@) == joined(grapheme.chars@) && %s[(current_state, r->Some_0)].max == grapheme.max - 1 && %s == %s.insert((current_state, r->Some_0), %s[(current_state, r->Some_0)])' % (NE, OE, OE, OE, OE, NE, OE, NE), X),
                           Clause('find_next_state.found_same_label', 'edges_exact(%s) ==> (r is Some ==> %s.contains_key((current_state, r->Some_0)) && label_eq(%s[(current_state, r->Some_0)], *grapheme))' % (OE, OE, OE), X),
                           Clause('find_next_state.reuse_scope', 'r is Some ==> %s.contains_key((current_state, r->Some_0)) && joined(%s[(current_state, r->Some_0)].chars@) == joined(grapheme.chars@) && (%s[(current_state, r->Some_0)].max == grapheme.max || %s[(current_state, r->Some_0)].max == grapheme.max - 1)' % (OE, OE, OE, OE), X),
                           Clause('find_next_state.relabel_keeps_config_flags', 'forall|e: (State, State)| #[trigger] %s.contains_key(e) && %s.contains_key(e) && %s[e] != %s[e] ==> cfg_flags(%s[e], *%s.config)' % (NE, OE, NE, OE, NE, N), ['C06']),
                           Clause('find_next_state.none_means_absent', 'r is None ==> label_absent(%s, current_state, *grapheme)' % OE, X)],
                  loops={1: ['*self == *old(self)', 'it1.seq() == into_iter_elts(it1.snapshot@)',
                             'nb_ok(into_iter_elts(it1.snapshot@), current_state, self.graph.edges())', '0 <= it1.index@ <= it1.seq().len()',
                             'self.graph.nodes().contains(current_state)', 'edges_closed(self.graph.edges(), self.graph.nodes())', 'edges_wf(self.graph.edges())', 'exact_label(*grapheme)',
                             'scanned(into_iter_elts(it1.snapshot@), it1.index@, self.graph.edges(), current_state, *grapheme)']},
                  blocks=[(1, 'loop_start', '            proof { assert(it1.seq().contains(next_state)) by { assert(it1.seq()[it1.index@] == next_state); } assert(self.graph.edges().contains_key((current_state, next_state))); }')])
    b.verified_fn('dfa.rs', 'add_new_state', within=D, props=['C07'], fname='Dfa::add_new_state',
                  requires=[inv(O), '%s.graph.nodes().contains(current_state)' % O],
                  clauses=[Clause('add_new_state.frame', frame, S),
                           Clause('add_new_state.fresh_edge', '!%s.graph.nodes().contains(r) && %s.graph.nodes() == %s.graph.nodes().insert(r) && %s == %s.insert((current_state, r), *edge_label)' % (O, N, O, NE, OE), S)])
    b.verified_fn('dfa.rs', 'return_next_state', within=D, props=['C07'], fname='Dfa::return_next_state',
                  requires=[inv(O), '%s.graph.nodes().contains(current_state)' % O, 'exact_label(*edge_label)'],
                  clauses=[Clause('return_next_state.frame', frame, S),
                           Clause('return_next_state.step_covers', '%s.contains_key((current_state, r)) && label_covers(%s[(current_state, r)], *edge_label) && edges_cover(%s, %s)' % (NE, NE, OE, NE), S),
                           Clause('return_next_state.step_exact', 'edges_exact(%s) ==> label_eq(%s[(current_state, r)], *edge_label) && submap(%s, %s) && edges_exact(%s)' % (OE, NE, OE, NE, NE), X),
                           Clause('return_next_state.invariants', inv(N) + ' && %s.graph.nodes().contains(r)' % N, S)])
    b.verified_fn('dfa.rs', 'insert', within=D, props=['C07'], fname='Dfa::insert',
                  requires=[inv(O), 'forall|i: int| 0 <= i < cluster.graphemes@.len() ==> exact_label(#[trigger] cluster.graphemes@[i])'],
                  clauses=[Clause('insert.start_unchanged', '%s.initial_state == %s.initial_state' % (N, O), S),
                           Clause('insert.accepting_path', 'exists|last: State| #[trigger] path_cov(%s, %s.initial_state, cluster.graphemes@, last) && %s.final_state_indices@ == %s.final_state_indices@.insert(last.ix as usize)' % (NE, N, N, O), S),
                           Clause('insert.keeps_earlier_words', 'edges_cover(%s, %s)' % (OE, NE), S),
                           Clause('insert.exact_path', 'edges_exact(%s) ==> exists|last: State| #[trigger] path(%s, %s.initial_state, cluster.graphemes@, last) && %s.final_state_indices@ == %s.final_state_indices@.insert(last.ix as usize)' % (OE, NE, N, N, O), X),
                           Clause('insert.no_relabel', 'edges_exact(%s) ==> submap(%s, %s) && edges_exact(%s)' % (OE, OE, NE, NE), X),
                           Clause('insert.invariants', inv(N), S)],
                  loops={1: ['self.initial_state == old(self).initial_state', 'self.final_state_indices == old(self).final_state_indices',
                             'it1.seq().len() == cluster.graphemes@.len()', 'forall|i: int| 0 <= i < it1.seq().len() ==> *#[trigger] it1.seq()[i] == cluster.graphemes@[i]',
                             'forall|i: int| 0 <= i < cluster.graphemes@.len() ==> exact_label(#[trigger] cluster.graphemes@[i])',
                             inv('self'), 'self.graph.nodes().contains(current_state)', 'edges_cover(old(self).graph.edges(), self.graph.edges())',
                             ('insert.accepting_path@loop1', S, 'path_cov(self.graph.edges(), self.initial_state, cluster.graphemes@.take(it1.index@), current_state)'),
                             ('insert.exact_path@loop1', X, 'edges_exact(old(self).graph.edges()) ==> edges_exact(self.graph.edges()) && submap(old(self).graph.edges(), self.graph.edges()) && path(self.graph.edges(), self.initial_state, cluster.graphemes@.take(it1.index@), current_state)')]},
                  blocks=[(1, 'loop_start', '            let ghost e0 = self.graph.edges(); let ghost s0 = current_state;'),
                          (1, 'loop_end', """            proof {
                let k = it1.index@;
                assert(*grapheme == cluster.graphemes@[k]);
                lemma_path_cov_mono(e0, self.graph.edges(), self.initial_state, cluster.graphemes@.take(k), s0);
                lemma_path_cov_snoc(self.graph.edges(), self.initial_state, cluster.graphemes@.take(k), s0, *grapheme, current_state);
                lemma_edges_cover_trans(old(self).graph.edges(), e0, self.graph.edges());
                assert(cluster.graphemes@.take(k).push(*grapheme) =~= cluster.graphemes@.take(k + 1));
                if edges_exact(old(self).graph.edges()) {
                    lemma_path_mono(e0, self.graph.edges(), self.initial_state, cluster.graphemes@.take(k), s0);
                    lemma_path_snoc(self.graph.edges(), self.initial_state, cluster.graphemes@.take(k), s0, *grapheme, current_state);
                }
            }"""),
                          (None, 'fn_end', '        proof { assert(cluster.graphemes@.take(cluster.graphemes@.len() as int) =~= cluster.graphemes@); assert(self.final_state_indices@ == old(self).final_state_indices@.insert(current_state.ix as usize)); }')])
    b.verified_fn('dfa.rs', 'new', within=D, props=['C07'], fname='Dfa::new',
                  clauses=[Clause('dfa_new.empty_automaton', 'r.graph.edges() == Map::<(State, State), Grapheme>::empty() && r.graph.nodes() == set![r.initial_state] && r.final_state_indices@ == Set::<usize>::empty() && r.config == config', ['C01', 'C16'])])
    from units.minimize import NODES_OK, MINIMIZE_POST
    b.assumed_fn('dfa.rs', 'minimize', within=D, requires=NODES_OK, ensures=[MINIMIZE_POST], why='verified in unit minimize against exactly this contract (language preservation of the refinement is NOT part of it: stage contract S2b)')
    ALL = 'forall|k: int| 0 <= k < %s ==> #[trigger] accepted_cov(%s.graph.edges(), %s.initial_state, %s.final_state_indices@, grapheme_clusters@[k].graphemes@)'
    b.verified_fn('dfa.rs', 'from', within=D, props=['C07'], fname='Dfa::from',
                  requires=['forall|k: int, i: int| 0 <= k < grapheme_clusters@.len() && 0 <= i < grapheme_clusters@[k].graphemes@.len() ==> exact_label(#[trigger] grapheme_clusters@[k].graphemes@[i])'],
                  clauses=[Clause('dfa_from.every_cluster_accepted', '!is_minimized ==> ' + ALL % ('grapheme_clusters@.len()', 'r', 'r', 'r'), ['C01', 'C16'])],
                  loops={1: [('dfa_from.iterates_all_clusters@loop1', ['C01', 'C16'], 'it1.seq().len() == grapheme_clusters@.len() && forall|k: int| 0 <= k < it1.seq().len() ==> *#[trigger] it1.seq()[k] == grapheme_clusters@[k]'),
                             'forall|k: int, i: int| 0 <= k < grapheme_clusters@.len() && 0 <= i < grapheme_clusters@[k].graphemes@.len() ==> exact_label(#[trigger] grapheme_clusters@[k].graphemes@[i])',
                             inv('dfa'), ('dfa_from.every_cluster_accepted@loop1', ['C01', 'C16'], ALL % ('it1.index@', 'dfa', 'dfa', 'dfa'))]},
                  blocks=[(1, 'loop_start', '            let ghost d0 = dfa; proof { assert(*cluster == grapheme_clusters@[it1.index@]); }'),
                          (1, 'loop_end', """            proof {
                assert forall|k: int| 0 <= k < it1.index@ + 1 implies #[trigger] accepted_cov(dfa.graph.edges(), dfa.initial_state, dfa.final_state_indices@, grapheme_clusters@[k].graphemes@) by {
                    if k < it1.index@ {
                        lemma_accepted_mono(d0.graph.edges(), dfa.graph.edges(), dfa.initial_state, d0.final_state_indices@, dfa.final_state_indices@, grapheme_clusters@[k].graphemes@);
                    } else {
                        let last = choose|last: State| #[trigger] path_cov(dfa.graph.edges(), dfa.initial_state, cluster.graphemes@, last) && dfa.final_state_indices@ == d0.final_state_indices@.insert(last.ix as usize);
                        assert(path_cov(dfa.graph.edges(), dfa.initial_state, grapheme_clusters@[k].graphemes@, last) && dfa.final_state_indices@.contains(last.ix as usize));
                    }
                }
            }""", ('dfa_from.every_cluster_accepted@loop1', ['C01', 'C16']))])
    b.emit('}\n} // verus!\nimpl Clone for Grapheme { fn clone(&self) -> Self { unimplemented!() } }\n// derived Ord/Eq of Grapheme (only needed to type-check the BTreeSet alphabet; never specified)\nimpl PartialEq for Grapheme { fn eq(&self, o: &Self) -> bool { unimplemented!() } }\nimpl Eq for Grapheme {}\nimpl PartialOrd for Grapheme { fn partial_cmp(&self, o: &Self) -> Option<std::cmp::Ordering> { unimplemented!() } }\nimpl Ord for Grapheme { fn cmp(&self, o: &Self) -> std::cmp::Ordering { unimplemented!() } }\nfn main() {}')
    b.trusted += ['petgraph stand-in (StableGraph::{add_node, add_edge, update_edge, neighbors, find_edge, edge_weight}) with ghost nodes/edges',
                  'preconditions of insert (graph closed under its node set, exact labels min == max >= 1) are assumed of its unverified callers Dfa::new / Dfa::from and of the clusters',
                  'Grapheme::value() is Vec<String>::join (uninterpreted `joined`); BTreeSet alphabet insertion is opaque', 'std::cmp::{min,max} at u32']
    return b
