"""Unit `regexp`: RegExp::from as the composition of the pipeline stages (C01, C16, C10, C08 fallback)."""
from vx.assemble import Builder, Clause
from vx import extract as X
from units import expr as E

def _map_or_as_match(t, log, w):
    """R33: `let N = E.map_or(false, |v| B);` => `let N = match E { Some(v) => B, None => false };`"""
    import re
    m = re.search(r'let (\w+) = ([^;]*?)\s*\.map_or\((true|false), \|(\w+)\| ([^;]*)\);', t, re.S)
    if not m: return t
    log.add('R33', w, 'let N = X.map_or(D, |v| B);', 'let N = match X { Some(v) => B, None => D };')
    return t[:m.start()] + 'let %s = match %s { Some(%s) => %s, None => %s };' % (m.group(1), m.group(2).strip(), m.group(4), m.group(5).strip(), m.group(3)) + t[m.end():]

def build(repo, spec_dir, canary=False):
    b = Builder('regexp', repo, canary)
    b.emit('#![feature(allocator_api)]\nuse vstd::prelude::*;\nuse vstd::std_specs::cmp::*;\nuse std::collections::BTreeSet;\nverus! {')
    for f, h in [('config.rs', r'^pub struct RegExpConfig \{'), ('quantifier.rs', r'^pub enum Quantifier \{'), ('substring.rs', r'^pub enum Substring \{'),
                 ('grapheme.rs', r'^pub struct Grapheme \{'), ('cluster.rs', r"^pub struct GraphemeCluster<'a> \{"), ('expression.rs', r"^pub enum Expression<'a> \{"),
                 ('regexp.rs', r"^pub struct RegExp<'a> \{")]:
        b.type_item(f, h)
    b.emit("pub struct Dfa<'a> { pub config: &'a RegExpConfig }\npub struct Regex { pub x: u8 }")
    b.emit('pub mod spec {\nuse super::*;')
    b.emit(open(spec_dir + '/lang.rs').read())
    b.emit(open(spec_dir + '/pipeline.rs').read())
    b.emit('}\nmod code {\nuse super::*;\nuse super::spec::*;')
    b.emit('''// ghost bookkeeping of the self-check (C08): which expression a compiled regex was printed from, and what the two checks said about it
pub uninterp spec fn regex_source(r: Regex) -> Expression<'static>;
pub uninterp spec fn compiles_to(text: Seq<char>) -> Expression<'static>;
pub uninterp spec fn selfcheck_verdict(r: Regex, test_cases: Seq<String>) -> bool;                  // what regex_matches_all_test_cases answers: a function of the compiled regex and the test cases
// some regex compiled from e got a positive verdict
pub open spec fn passed(e: Expression<'static>, test_cases: Seq<String>) -> bool { exists|rg: Regex| regex_source(rg) == e && #[trigger] selfcheck_verdict(rg, test_cases) }
pub broadcast proof fn lemma_passed(rg: Regex, test_cases: Seq<String>) requires #[trigger] selfcheck_verdict(rg, test_cases) ensures passed(regex_source(rg), test_cases) { }
pub uninterp spec fn built_by_new_alternation(e: Expression<'static>) -> bool;
pub uninterp spec fn erase<'a>(e: Expression<'a>) -> Expression<'static>;                          // the same tree without its lifetime (ghost only)
// C07: build() must return for EVERY combination of settings.  The regex crate accepts a text or not (`compiles`, uninterpreted); the property promises that
// the printed pattern compiles "unless surrogate-pair escaping or syntax highlighting is on" -- so only then may a compile result be unwrapped.
pub uninterp spec fn compiles(text: Seq<char>) -> bool;
pub uninterp spec fn expr_text(e: Expression<'static>) -> Seq<char>;           // Display for Expression
pub uninterp spec fn strip_sgr(text: Seq<char>) -> Seq<char>;                 // the text without the colour codes
pub open spec fn candidate_text(e: Expression<'static>, c: RegExpConfig) -> Seq<char> { if c.is_output_colorized { strip_sgr(expr_text(e)) } else { expr_text(e) } }
// ASSUMED (the second half of C07, a statement about the regex crate's parser): without surrogate pairs the printer emits valid syntax
pub broadcast axiom fn axiom_printer_emits_valid_syntax(e: Expression<'static>, c: RegExpConfig)
    requires !c.is_astral_code_point_converted_to_surrogate ensures #[trigger] compiles(candidate_text(e, c));
// ghost bookkeeping: a regex compiled from the candidate text of e "comes from" e
pub broadcast axiom fn axiom_candidate_source(e: Expression<'static>, c: RegExpConfig) ensures #[trigger] compiles_to(candidate_text(e, c)) == e;
// the verbose branch recompiles the candidate without the line breaks the verbose components inserted: ASSUMED to compile if the candidate did
#[verifier::external_body] pub fn vx_regex_text_without_line_breaks(r: &Regex) -> (s: String) ensures compiles_to(s@) == regex_source(*r), compiles(s@) { unimplemented!() }
#[verifier::external_body] pub fn vx_expr_text(e: &Expression) -> (s: String) ensures s@ == expr_text(erase(*e)) { unimplemented!() }
#[verifier::external_body] pub fn vx_strip_colour(r: &Regex, s: &String) -> (o: String) ensures o@ == strip_sgr(s@) { unimplemented!() }
// a constant pattern (the colour-code pattern): compiled in every run of the suite
#[verifier::external_body] pub fn vx_constant_regex(s: &str) -> (r: Regex) { unimplemented!() }
impl Regex {
    #[verifier::external_body] pub fn new(s: &str) -> (r: Result<Regex, ()>) ensures r is Ok <==> compiles(s@), r is Ok ==> regex_source(r->Ok_0) == compiles_to(s@) { unimplemented!() }
}''')
    b.emit("impl<'a> Dfa<'a> {")
    b.emit('''    #[verifier::external_body]
    pub fn from(grapheme_clusters: &[GraphemeCluster], is_minimized: bool, config: &'a RegExpConfig) -> (r: Self)
        ensures dfa_lang(r) == words(grapheme_clusters@) { unimplemented!() }''')
    b.trusted.append('assumed stage contract S2: Dfa::from(clusters, minimized?, config) accepts exactly words(clusters) (insert: unit trie; recreate_graph: unit dfa; Hopcroft loop unverified; known findings KF1, KF2)')
    b.emit("}\nimpl<'a> Expression<'a> {")
    b.emit('''    #[verifier::external_body]
    pub fn from(dfa: Dfa, config: &'a RegExpConfig) -> (r: Self)
        ensures lang(r) == dfa_lang(dfa) { unimplemented!() }''')
    b.trusted.append('assumed stage contract S3: Expression::from(dfa) denotes the language of dfa (elimination loop: unit elim; first loop that builds the equation system is unverified)')
    EX = "^impl<'a> Expression<'a> \\{"
    b.assumed_fn('expression.rs', 'new_literal', within=EX, ensures=[c[1] for c in E.NEW_LITERAL_CLAUSES], why='verified in unit expr against exactly this contract')
    b.assumed_fn('expression.rs', 'new_alternation', within=EX, ensures=E.NEW_ALTERNATION_ENSURES + ['built_by_new_alternation(erase(r))'], why='language clause verified in unit expr against exactly this text; built_by_new_alternation is ghost bookkeeping (a name for "this value came out of new_alternation")')
    b.emit("}\nimpl<'a> RegExp<'a> {")
    RX = "^impl<'a> RegExp<'a> \\{"
    b.assumed_fn('regexp.rs', 'convert_for_case_insensitive_matching', within=RX, ensures=['final(test_cases)@ == caseconv_spec(old(test_cases)@)'], why='iter().map(closure).collect_vec(); the closure body is verified in unit misc')
    b.assumed_fn('regexp.rs', 'sort', within=RX, ensures=['final(test_cases)@ == sort_spec(old(test_cases)@)'], why='std sort/dedup/sort_by; comparator verified in unit misc')
    b.assumed_fn('regexp.rs', 'grapheme_clusters', within=RX, ensures=['r@ == clusters_spec(test_cases@, *config)'], why='iterator chains, unicode-segmentation; conversion closures verified in units classify/misc')
    # convert_expr_to_regex: whole function (it used to be assumed): every unwrap of a compile result needs a text the property promises to compile
    cf, _, _ = X.fn(b.src('regexp.rs'), 'convert_expr_to_regex', within=RX)
    optional = '-> Option<Regex>' in cf
    CONV_RULES = [('R19', r'Regex::new\(("(?:[^"\\]|\\.)*")\)\.unwrap\(\)', r'vx_constant_regex(\1)', 'Regex::new(CONSTANT).unwrap(): a constant pattern'),
                  ('R19', r'color_replace_regex\.replace_all\(&expr\.to_string\(\), ""\)', 'vx_strip_colour(&color_replace_regex, &vx_expr_text(expr))', 'Regex::replace_all(text, ""): the text without the colour codes (strip_sgr, uninterpreted)'),
                  ('R16', r'\bexpr\.to_string\(\)', 'vx_expr_text(expr)', 'Display for Expression (expr_text, uninterpreted)')]
    if optional:
        conv = [Clause('selfcheck.compiled_candidate_comes_from_the_expression', 'r is Some ==> regex_source(r->Some_0) == erase(*expr)', ['C08']),
                Clause('selfcheck.a_candidate_without_surrogate_pairs_is_compiled', '!config.is_astral_code_point_converted_to_surrogate ==> r is Some', ['C08', 'C07'])]
    else:
        conv = [Clause('selfcheck.compiled_candidate_comes_from_the_expression', 'regex_source(r) == erase(*expr)', ['C08'])]
    b.verified_fn('regexp.rs', 'convert_expr_to_regex', within=RX, props=['C07'], fname='RegExp::convert_expr_to_regex', extra_rules=CONV_RULES, clauses=conv,
                  blocks=[(None, 'fn_start', '        broadcast use axiom_printer_emits_valid_syntax, axiom_candidate_source;\n        proof { assert(candidate_text(erase(*expr), *config) == candidate_text(erase(*expr), *config)); }')])
    b.assumed_fn('regexp.rs', 'regex_matches_all_test_cases', within=RX, ensures=['r == selfcheck_verdict(*regex, test_cases@)'], why='regex engine call; the verdict is a function of its two arguments (the same text as in unit expr)')
    b.assumed_fn('regexp.rs', 'is_each_test_case_matched_after_rotating_alternations', within=RX, ensures=[c[1] for c in E.ROTATE_CLAUSES], why='verified in unit expr against exactly this contract (rotate.lang_preserved, rotate.positive_verdict_is_for_the_returned_arrangement)')
    W = 'words(clusters_spec(final(test_cases)@, *config))'
    b.verified_fn('regexp.rs', 'from', within=RX, props=['C07'], fname='RegExp::from',
                  clauses=[Clause('pipeline.input_prepared', 'final(test_cases)@ == prepared(old(test_cases)@, *config)', ['C10', 'C04', 'C16']),
                           Clause('pipeline.language', 'lang(r.ast) == %s' % W, ['C01', 'C02', 'C08', 'C16']),
                           Clause('pipeline.config', 'r.config == config', ['C10']),
                           Clause('pipeline.unanchored_result_passed_a_selfcheck_or_is_the_fallback',
                                  'config.is_end_anchor_disabled && !config.is_astral_code_point_converted_to_surrogate ==> passed(erase(r.ast), final(test_cases)@) || built_by_new_alternation(erase(r.ast))', ['C08'])],       # without `$` nothing forces a match to reach the end of the test case: the order of the alternatives must do it, and only the self-check looks at that (with `$` and no `^` the leftmost match of a word of the language starts at 0 and must end at the end)
                  loops={1: ['it1.seq() == gc0', '0 <= it1.index@ <= gc0.len()',
                             ('pipeline.fallback_alternation@loop1', ['C01', 'C08', 'C16'], 'alt_lang(exprs@) == words(gc0.take(it1.index@))')]},
                  blocks=[(None, 'fn_start', '        broadcast use lemma_passed;'),
                          (1, 'loop_before', '                    let ghost gc0 = grapheme_clusters@; proof { lemma_alt_lang_empty(); lemma_words_empty(); assert(gc0.take(0) =~= Seq::<GraphemeCluster>::empty()); }'),
                          (1, 'loop_after', '                    proof { assert(gc0.take(gc0.len() as int) =~= gc0); }', ('pipeline.fallback_alternation@loop1', ['C01', 'C08', 'C16'])),
                          (1, 'loop_start', '                        let ghost old_exprs = exprs@; proof { assert(cluster == gc0[it1.index@]); }'),
                          (1, 'loop_end', '''                        proof {
                            assert(exprs@ == old_exprs.push(exprs@.last()));
                            lemma_alt_lang_push(old_exprs, exprs@.last());
                            lemma_words_take_step(gc0, it1.index@);
                        }''', ('pipeline.fallback_alternation@loop1', ['C01', 'C08', 'C16']))],
                  pre=_map_or_as_match,
                  extra_rules=[('R4', r"regex\.to_string\(\)\.replace\('\\n', \"\"\)", 'vx_regex_text_without_line_breaks(&regex)', 'Display for Regex + String::replace: text only feeds the self-check')])
    b.emit('}\n} // mod code')
    b.emit(E.TRUSTED_PRELUDE)
    b.emit(E.eq_impl('Grapheme')); b.emit(E.eq_impl('Quantifier')); b.emit(E.eq_impl("Expression<'a>", "<'a>"))
    b.emit('} // verus!')
    b.emit(E.OUTSIDE)
    b.trusted += ['ASSUMED (axiom_printer_emits_valid_syntax): without surrogate pairs the candidate pattern of the self-check compiles (the second half of C07: a statement about the regex crate parser); with surrogate pairs NOTHING is assumed, so an unwrap of that compile result is a failed obligation', 'removing the line breaks of the verbose components from a compiling candidate keeps it compiling (vx_regex_text_without_line_breaks); the colour-code pattern is a constant that compiles', 'derived Clone/PartialEq structural; glang uninterpreted']
    return b
