"""Unit `regexp`: RegExp::from as the composition of the pipeline stages (C01, C16, C10, C08 fallback)."""
from vx.assemble import Builder, Clause
from vx import extract as X
from units import expr as E

def build(repo, spec_dir, canary=False):
    b = Builder('regexp', repo, canary)
    b.emit('#![feature(allocator_api)]\nuse vstd::prelude::*;\nuse vstd::std_specs::cmp::*;\nuse std::collections::BTreeSet;\nverus! {')
    for f, h in [('config.rs', r'^pub struct RegExpConfig \{'), ('quantifier.rs', r'^pub enum Quantifier \{'), ('substring.rs', r'^pub enum Substring \{'),
                 ('grapheme.rs', r'^pub struct Grapheme \{'), ('cluster.rs', r"^pub struct GraphemeCluster<'a> \{"), ('expression.rs', r"^pub enum Expression<'a> \{"),
                 ('regexp.rs', r"^pub struct RegExp<'a> \{")]:
        b.type_item(f, h)
    b.emit("pub struct Dfa<'a> { pub config: &'a RegExpConfig }\npub struct Regex { pub x: u8 }")
    b.emit('pub mod spec {\nuse super::*;')
    b.emit(open(spec_dir + '/lang.rs').read())
    b.emit(open(spec_dir + '/pipeline.rs').read())
    b.emit('}\nmod code {\nuse super::*;\nuse super::spec::*;')
    b.emit('''// ghost bookkeeping of the self-check (C08): which expression a compiled regex was printed from, and what the two checks said about it
pub uninterp spec fn regex_source(r: Regex) -> Expression<'static>;
pub uninterp spec fn compiles_to(text: Seq<char>) -> Expression<'static>;
pub uninterp spec fn selfcheck_verdict(r: Regex, test_cases: Seq<String>) -> bool;                  // what regex_matches_all_test_cases answers: a function of the compiled regex and the test cases
// some regex compiled from e got a positive verdict
pub open spec fn passed(e: Expression<'static>, test_cases: Seq<String>) -> bool { exists|rg: Regex| regex_source(rg) == e && #[trigger] selfcheck_verdict(rg, test_cases) }
pub broadcast proof fn lemma_passed(rg: Regex, test_cases: Seq<String>) requires #[trigger] selfcheck_verdict(rg, test_cases) ensures passed(regex_source(rg), test_cases) { }
pub uninterp spec fn built_by_new_alternation(e: Expression<'static>) -> bool;
pub uninterp spec fn erase<'a>(e: Expression<'a>) -> Expression<'static>;                          // the same tree without its lifetime (ghost only)
#[verifier::external_body] pub fn vx_regex_text_without_line_breaks(r: &Regex) -> (s: String) ensures compiles_to(s@) == regex_source(*r) { unimplemented!() }
impl Regex {
    // the self-check compiles the candidate pattern and unwraps: that the printer emits valid syntax is ASSUMED here (C07 lists it as not decided)
    #[verifier::external_body] pub fn new(s: &str) -> (r: Result<Regex, ()>) ensures r is Ok, regex_source(r->Ok_0) == compiles_to(s@) { unimplemented!() }
}''')
    b.emit("impl<'a> Dfa<'a> {")
    b.emit('''    #[verifier::external_body]
    pub fn from(grapheme_clusters: &[GraphemeCluster], is_minimized: bool, config: &'a RegExpConfig) -> (r: Self)
        ensures dfa_lang(r) == words(grapheme_clusters@) { unimplemented!() }''')
    b.trusted.append('assumed stage contract S2: Dfa::from(clusters, minimized?, config) accepts exactly words(clusters) (insert: unit trie; recreate_graph: unit dfa; Hopcroft loop unverified; known findings KF1, KF2)')
    b.emit("}\nimpl<'a> Expression<'a> {")
    b.emit('''    #[verifier::external_body]
    pub fn from(dfa: Dfa, config: &'a RegExpConfig) -> (r: Self)
        ensures lang(r) == dfa_lang(dfa) { unimplemented!() }''')
    b.trusted.append('assumed stage contract S3: Expression::from(dfa) denotes the language of dfa (elimination loop: unit elim; first loop that builds the equation system is unverified)')
    EX = "^impl<'a> Expression<'a> \\{"
    b.assumed_fn('expression.rs', 'new_literal', within=EX, ensures=[c[1] for c in E.NEW_LITERAL_CLAUSES], why='verified in unit expr against exactly this contract')
    b.assumed_fn('expression.rs', 'new_alternation', within=EX, ensures=E.NEW_ALTERNATION_ENSURES + ['built_by_new_alternation(erase(r))'], why='language clause verified in unit expr against exactly this text; built_by_new_alternation is ghost bookkeeping (a name for "this value came out of new_alternation")')
    b.emit("}\nimpl<'a> RegExp<'a> {")
    RX = "^impl<'a> RegExp<'a> \\{"
    b.assumed_fn('regexp.rs', 'convert_for_case_insensitive_matching', within=RX, ensures=['final(test_cases)@ == caseconv_spec(old(test_cases)@)'], why='iter().map(closure).collect_vec(); the closure body is verified in unit misc')
    b.assumed_fn('regexp.rs', 'sort', within=RX, ensures=['final(test_cases)@ == sort_spec(old(test_cases)@)'], why='std sort/dedup/sort_by; comparator verified in unit misc')
    b.assumed_fn('regexp.rs', 'grapheme_clusters', within=RX, ensures=['r@ == clusters_spec(test_cases@, *config)'], why='iterator chains, unicode-segmentation; conversion closures verified in units classify/misc')
    b.assumed_fn('regexp.rs', 'convert_expr_to_regex', within=RX, ensures=['regex_source(r) == erase(*expr)'], why='regex crate; ghost bookkeeping: the regex was printed from this expression')
    b.assumed_fn('regexp.rs', 'regex_matches_all_test_cases', within=RX, ensures=['r == selfcheck_verdict(*regex, test_cases@)'], why='regex engine call; the verdict is a function of its two arguments (the same text as in unit expr)')
    b.assumed_fn('regexp.rs', 'is_each_test_case_matched_after_rotating_alternations', within=RX, ensures=[c[1] for c in E.ROTATE_CLAUSES], why='verified in unit expr against exactly this contract (rotate.lang_preserved, rotate.positive_verdict_is_for_the_returned_arrangement)')
    W = 'words(clusters_spec(final(test_cases)@, *config))'
    b.verified_fn('regexp.rs', 'from', within=RX, props=['C07'], fname='RegExp::from',
                  clauses=[Clause('pipeline.input_prepared', 'final(test_cases)@ == prepared(old(test_cases)@, *config)', ['C10', 'C04', 'C16']),
                           Clause('pipeline.language', 'lang(r.ast) == %s' % W, ['C01', 'C02', 'C08', 'C16']),
                           Clause('pipeline.config', 'r.config == config', ['C10']),
                           Clause('pipeline.unanchored_result_passed_a_selfcheck_or_is_the_fallback',
                                  'config.is_end_anchor_disabled ==> passed(erase(r.ast), final(test_cases)@) || built_by_new_alternation(erase(r.ast))', ['C08'])],       # without `$` nothing forces a match to reach the end of the test case: the order of the alternatives must do it, and only the self-check looks at that (with `$` and no `^` the leftmost match of a word of the language starts at 0 and must end at the end)
                  loops={1: ['it1.seq() == gc0', '0 <= it1.index@ <= gc0.len()',
                             ('pipeline.fallback_alternation@loop1', ['C01', 'C08', 'C16'], 'alt_lang(exprs@) == words(gc0.take(it1.index@))')]},
                  blocks=[(None, 'fn_start', '        broadcast use lemma_passed;'),
                          (1, 'loop_before', '                    let ghost gc0 = grapheme_clusters@; proof { lemma_alt_lang_empty(); lemma_words_empty(); assert(gc0.take(0) =~= Seq::<GraphemeCluster>::empty()); }'),
                          (1, 'loop_after', '                    proof { assert(gc0.take(gc0.len() as int) =~= gc0); }', ('pipeline.fallback_alternation@loop1', ['C01', 'C08', 'C16'])),
                          (1, 'loop_start', '                        let ghost old_exprs = exprs@; proof { assert(cluster == gc0[it1.index@]); }'),
                          (1, 'loop_end', '''                        proof {
                            assert(exprs@ == old_exprs.push(exprs@.last()));
                            lemma_alt_lang_push(old_exprs, exprs@.last());
                            lemma_words_take_step(gc0, it1.index@);
                        }''', ('pipeline.fallback_alternation@loop1', ['C01', 'C08', 'C16']))],
                  extra_rules=[('R4', r"regex\.to_string\(\)\.replace\('\\n', \"\"\)", 'vx_regex_text_without_line_breaks(&regex)', 'Display for Regex + String::replace: text only feeds the self-check')])
    b.emit('}\n} // mod code')
    b.emit(E.TRUSTED_PRELUDE)
    b.emit(E.eq_impl('Grapheme')); b.emit(E.eq_impl('Quantifier')); b.emit(E.eq_impl("Expression<'a>", "<'a>"))
    b.emit('} // verus!')
    b.emit(E.OUTSIDE)
    b.trusted += ['Regex::new(candidate) is Ok (the self-check unwrap): that the printer emits valid syntax is assumed', 'derived Clone/PartialEq structural; glang uninterpreted']
    return b
