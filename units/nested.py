"""unit `nested`: regex metacharacters are escaped in EVERY grapheme whose characters are printed, however deep it sits inside
nested repetitions (C01 / C06 / C11: `(?:(?:a\\{2\\}){3}x){3}` and not `(?:(?:a{2}){3}x){3}`).

Real text under contract:
  grapheme.rs  Grapheme::has_repetitions, repetitions_mut, minimum, maximum                       (whole functions)
               Grapheme::escape_regexp_symbols                                                    (whole function; the statements that rewrite the
                                                                                                   grapheme's OWN `chars` are replaced by one specified
                                                                                                   stand-in call, see `own_chars_standin`)
  format.rs    format_literal: the `if grapheme.has_repetitions() { .. } else { .. }` statement of the map closure (R7 slice)
Loops over `iter_mut()` are desugared by R24.
"""
import re
from vx.assemble import Builder, Clause
from vx import extract as X, dialect as D

SPEC = r'''
// what the character-level part of escape_regexp_symbols does to `chars` (decided by units `escaper` / `escape` / `split`); opaque here
pub uninterp spec fn chars_escaped(o: Seq<String>, n: Seq<String>, non_ascii: bool, surrogates: bool) -> bool;
pub open spec fn same_scalars(o: Grapheme, n: Grapheme) -> bool {
    n.min == o.min && n.max == o.max && n.is_capturing_group_enabled == o.is_capturing_group_enabled
    && n.is_output_colorized == o.is_output_colorized && n.is_verbose_mode_enabled == o.is_verbose_mode_enabled
}
pub open spec fn same_shape(o: Grapheme, n: Grapheme) -> bool { same_scalars(o, n) && n.repetitions@.len() == o.repetitions@.len() }
// `n` is `o` with the characters of the node itself and of every nested repetition, at every depth, escaped
pub open spec fn escaped_everywhere(o: Grapheme, n: Grapheme, a: bool, b: bool) -> bool
    decreases o
{
    same_shape(o, n) && chars_escaped(o.chars@, n.chars@, a, b)
    && forall|i: int| 0 <= i < o.repetitions@.len() ==> escaped_everywhere(#[trigger] o.repetitions@[i], n.repetitions@[i], a, b)
}
// what Display prints: a grapheme without repetitions prints its own characters, one with repetitions prints its repetitions (grapheme.rs, `let mut value = ..`).
// `n` is `o` with every PRINTED character sequence escaped.
pub open spec fn printed_escaped(o: Grapheme, n: Grapheme, a: bool, b: bool) -> bool
    decreases o
{
    same_shape(o, n)
    && if o.repetitions@.len() == 0 { chars_escaped(o.chars@, n.chars@, a, b) }
       else { forall|i: int| 0 <= i < o.repetitions@.len() ==> printed_escaped(#[trigger] o.repetitions@[i], n.repetitions@[i], a, b) }
}
pub proof fn lemma_everywhere_printed(o: Grapheme, n: Grapheme, a: bool, b: bool)
    requires escaped_everywhere(o, n, a, b)
    ensures printed_escaped(o, n, a, b)
    decreases o
{
    if o.repetitions@.len() > 0 {
        assert forall|i: int| 0 <= i < o.repetitions@.len() implies printed_escaped(#[trigger] o.repetitions@[i], n.repetitions@[i], a, b) by {
            lemma_everywhere_printed(o.repetitions@[i], n.repetitions@[i], a, b);
        }
    }
}
// stand-in for the statements of escape_regexp_symbols that rewrite the grapheme's own `chars` (String::replace, format!, escape_non_ascii_chars)
#[verifier::external_body]
pub fn vx_escape_own_chars(g: &mut Grapheme, is_non_ascii_char_escaped: bool, is_astral_code_point_converted_to_surrogate: bool)
    ensures same_shape(*old(g), *final(g)), final(g).repetitions == old(g).repetitions,
            chars_escaped(old(g).chars@, final(g).chars@, is_non_ascii_char_escaped, is_astral_code_point_converted_to_surrogate),
{ unimplemented!() }
'''

def own_chars_standin(t, log, where):
    """replaces the statement range `let characters = self.chars_mut();` .. `if is_non_ascii_char_escaped { .. }` (inclusive) by the stand-in call"""
    a = t.find('let characters = self.chars_mut();')
    k = t.find('if is_non_ascii_char_escaped {')
    if a < 0 or k < 0 or k < a: raise X.LostAnchor('grapheme.rs::escape_regexp_symbols own-chars statements')
    _, _, e = X.if_else_stmt(t, 'if is_non_ascii_char_escaped {')
    inner = t[k:e]
    if not re.fullmatch(r'if is_non_ascii_char_escaped \{\s*self\.escape_non_ascii_chars\(is_astral_code_point_converted_to_surrogate\);\s*\}', inner):
        raise X.LostAnchor('grapheme.rs::escape_regexp_symbols: the non-ASCII step is no longer `if is_non_ascii_char_escaped { self.escape_non_ascii_chars(is_astral_code_point_converted_to_surrogate); }`')
    log.add('R9', where, 'statements `let characters = self.chars_mut();` .. `if is_non_ascii_char_escaped { .. }`', 'vx_escape_own_chars(self, ..) (specified stand-in; the character-level rules are decided in units escaper/escape/split)')
    return t[:a] + 'vx_escape_own_chars(self, is_non_ascii_char_escaped, is_astral_code_point_converted_to_surrogate);' + t[e:]

P = ['C01', 'C06', 'C11']
LOOP_INV = lambda v, k, o, a, b: [
    '%s@.len() == %s.repetitions@.len()' % (v, o), 'it1.iter.end == %s@.len()' % v,
    ('%s.escaped_below@loop1', P, 'forall|j: int| 0 <= j < %s ==> escaped_everywhere(#[trigger] %s.repetitions@[j], %s@[j], %s, %s)' % (k, o, v, a, b)),
    'forall|j: int| %s <= j < %s@.len() ==> #[trigger] %s@[j] == %s.repetitions@[j]' % (k, v, v, o)]

def _inv(prefix, v, k, o, a, b):
    return [(i if isinstance(i, str) else (i[0] % prefix, i[1], i[2])) for i in LOOP_INV(v, k, o, a, b)]

def build(repo, spec_dir, canary=False):
    b = Builder('nested', repo, canary)
    b.emit('use vstd::prelude::*;\nverus! {')
    b.type_item('grapheme.rs', r'^pub struct Grapheme \{')
    b.emit(SPEC)
    G = r'^impl Grapheme \{'
    A, B = 'is_non_ascii_char_escaped', 'is_astral_code_point_converted_to_surrogate'
    b.emit('impl Grapheme {')
    b.verified_fn('grapheme.rs', 'has_repetitions', within=G, props=['C07'], fname='Grapheme::has_repetitions',
                  clauses=[Clause('grapheme.has_repetitions', 'r == (self.repetitions@.len() > 0)', P)])
    b.verified_fn('grapheme.rs', 'repetitions_mut', within=G, props=['C07'], fname='Grapheme::repetitions_mut',
                  clauses=[Clause('grapheme.repetitions_mut', '*r == old(self).repetitions && *final(r) == final(self).repetitions && final(self).chars == old(self).chars && same_scalars(*old(self), *final(self))', P)])
    for name, ens in [('minimum', 'r == self.min'), ('maximum', 'r == self.max')]:
        b.verified_fn('grapheme.rs', name, within=G, props=['C07'], fname='Grapheme::' + name, clauses=[Clause('grapheme.%s' % name, ens, P)])
    # escape_regexp_symbols: own characters (stand-in) and then every nested repetition, recursively
    ef, _, _ = X.fn(b.src('grapheme.rs'), 'escape_regexp_symbols', within=G)
    has_loop = '.iter_mut()' in ef       # without any loop over the repetitions the postcondition simply fails (no invariant to attach)
    b.verified_fn('grapheme.rs', 'escape_regexp_symbols', within=G, props=['C07'], fname='Grapheme::escape_regexp_symbols', decreases='*old(self)',
                  pre=lambda t, log, w: D.desugar_iter_mut(own_chars_standin(t, log, w), log, w),
                  clauses=[Clause('escape_regexp_symbols.own_chars_escaped', 'same_shape(*old(self), *final(self)) && chars_escaped(old(self).chars@, final(self).chars@, %s, %s)' % (A, B), P),
                           Clause('escape_regexp_symbols.nested_repetitions_escaped', 'forall|i: int| 0 <= i < old(self).repetitions@.len() ==> escaped_everywhere(#[trigger] old(self).repetitions@[i], final(self).repetitions@[i], %s, %s)' % (A, B), P)],
                  loops={1: _inv('escape_regexp_symbols', 'vx_v1', 'vx_k1', 'old(self)', A, B)} if has_loop else None,
                  blocks=[(1, 'loop_start', '            proof { assert(decreases_to!(*old(self) => old(self).repetitions@[vx_k1 as int])); }')] if has_loop else None)
    b.emit('}')
    fm = b.src('format.rs')
    f, _, _ = X.fn(fm, 'format_literal')
    k = f.find('has_repetitions()')
    i0 = f.rfind('if ', 0, k) if k >= 0 else -1
    if i0 < 0: raise X.LostAnchor('format.rs::format_literal: the `if` on has_repetitions()')
    st, _, _ = X.if_else_stmt(f[i0:], 'if ')
    b.slice_fn('literal_escape_stmt', 'pub fn literal_escape_stmt(mut grapheme: Grapheme, %s: bool, %s: bool) -> (r: Grapheme)' % (A, B), '    ' + st,
               'format.rs::format_literal closure |mut grapheme|: statement `if grapheme.has_repetitions() { .. } else { .. }`', props=['C07'],
               pre=lambda t, log, w: D.desugar_iter_mut(t, log, w),
               prologue='    let ghost vx_o = grapheme;', epilogue='    grapheme',
               clauses=[Clause('format_literal.every_printed_grapheme_escaped', 'printed_escaped(grapheme, r, %s, %s)' % (A, B), P)],
               loops={1: _inv('format_literal', 'vx_v1', 'vx_k1', 'vx_o', A, B)},
               blocks=[(1, 'loop_after', '        proof { assert forall|i: int| 0 <= i < vx_o.repetitions@.len() implies printed_escaped(#[trigger] vx_o.repetitions@[i], vx_v1@[i], %s, %s) by { lemma_everywhere_printed(vx_o.repetitions@[i], vx_v1@[i], %s, %s); } }' % (A, B, A, B)),
                       (None, 'fn_end', '    proof { if vx_o.repetitions@.len() == 0 { lemma_everywhere_printed(vx_o, grapheme, %s, %s); } }' % (A, B))])
    b.emit('} // verus!\nfn main() {}')
    b.trusted += ['the statements of escape_regexp_symbols that rewrite the grapheme\'s own `chars` are replaced by the specified stand-in vx_escape_own_chars (they touch `chars` only; their character-level rules are decided in units escaper, escape, split)',
                  'Display for Grapheme prints `chars` when `repetitions` is empty and the repetitions otherwise (grapheme.rs `let mut value = ..`): read off the code, stated in `printed_escaped`, not verified',
                  'closure plumbing of format_literal dropped (.iter().cloned().map(closure).join("") applies the closure per element, in order); R24 desugaring of iter_mut().for_each']
    return b
