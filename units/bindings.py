"""Units `wasm` (C17) and `cli` (C12, C07): bindings call the library's setters / set the same fields."""
import re
from vx.assemble import Builder, Clause
from vx import extract as X, dialect as D
from units import builder as B

WASM = {'withConversionOfDigits': 'set_digit', 'withConversionOfNonDigits': 'set_non_digit', 'withConversionOfWhitespace': 'set_space',
        'withConversionOfNonWhitespace': 'set_non_space', 'withConversionOfWords': 'set_word', 'withConversionOfNonWords': 'set_non_word',
        'withConversionOfRepetitions': 'set_rep', 'withCaseInsensitiveMatching': 'set_ci', 'withCapturingGroups': 'set_cap',
        'withVerboseMode': 'set_verbose', 'withoutStartAnchor': 'set_no_start', 'withoutEndAnchor': 'set_no_end', 'withoutAnchors': 'set_no_anchors'}

def build_wasm(repo, spec_dir, canary=False):
    b = Builder('wasm', repo, canary)
    b.emit('use vstd::prelude::*;\nverus! {')
    B.emit_types_and_spec(b, lemmas=False)
    bu = b.src('builder.rs')
    for c in ['MINIMUM_REPETITIONS_MESSAGE', 'MINIMUM_SUBSTRING_LENGTH_MESSAGE']:
        st, _, _ = X.item(bu + '', r'^pub\(crate\) const ' + c) if False else (None, None, None)
        m = re.search(r'pub\(crate\) const ' + c + r': &str =\s*("(?:[^"\\]|\\.)*");', bu)
        if not m: raise X.LostAnchor(c)
        b.emit("pub const %s: &'static str = %s;" % (c, m.group(1)))
    b.emit('''#[verifier::external_body] pub struct JsValue { x: u8 }
pub uninterp spec fn js_of(s: Seq<char>) -> JsValue;
impl JsValue { #[verifier::external_body] pub fn from(s: &str) -> (r: JsValue) ensures r == js_of(s@) { unimplemented!() } }
pub uninterp spec fn build_spec(b: RegExpBuilder) -> Seq<char>;
impl RegExpBuilder { #[verifier::external_body] pub fn build(&mut self) -> (r: String) ensures r@ == build_spec(*old(self)), final(self).config == old(self).config { unimplemented!() } }
pub mod wasm {
use super::*;
use super::RegExpBuilder as Builder;''')
    b.type_item('wasm.rs', r'^pub struct RegExpBuilder \{')
    b.emit('pub assume_specification [<RegExpBuilder as Clone>::clone] (e: &RegExpBuilder) -> (r: RegExpBuilder) ensures r == *e;')
    b.emit('impl RegExpBuilder {')
    W = r'^impl RegExpBuilder \{'
    for m, sp in WASM.items():
        b.verified_fn('wasm.rs', m, within=W, props=['C07'], fname='wasm::' + m, clauses=[
            Clause('wasm.%s.effect' % m, 'final(self).builder.config == %s(old(self).builder.config)' % sp, ['C17']),
            Clause('wasm.%s.frame' % m, 'final(self).builder.test_cases == old(self).builder.test_cases && r == *final(self)', ['C17'])])
    b.verified_fn('wasm.rs', 'withEscapingOfNonAsciiChars', within=W, props=['C07'], fname='wasm::withEscapingOfNonAsciiChars', clauses=[
        Clause('wasm.withEscapingOfNonAsciiChars.effect', 'final(self).builder.config == set_escape(old(self).builder.config, useSurrogatePairs) && final(self).builder.test_cases == old(self).builder.test_cases && r == *final(self)', ['C17'])])
    for m, sp, p, msg in [('withMinimumRepetitions', 'set_min_rep', 'quantity', 'MINIMUM_REPETITIONS_MESSAGE'), ('withMinimumSubstringLength', 'set_min_len', 'length', 'MINIMUM_SUBSTRING_LENGTH_MESSAGE')]:
        b.verified_fn('wasm.rs', m, within=W, props=['C07'], fname='wasm::' + m, clauses=[
            Clause('wasm.%s.zero' % m, '%s == 0 ==> (r is Err && r->Err_0 == js_of(%s@) && *final(self) == *old(self))' % (p, msg), ['C17']),
            Clause('wasm.%s.positive' % m, '%s > 0 ==> (r is Ok && r->Ok_0 == *final(self) && final(self).builder.config == %s(old(self).builder.config, %s) && final(self).builder.test_cases == old(self).builder.test_cases)' % (p, sp, p), ['C17'])])
    b.verified_fn('wasm.rs', 'build', within=W, props=['C07'], fname='wasm::build', clauses=[
        Clause('wasm.build.delegates', 'r@ == build_spec(old(self).builder)', ['C17'])])
    b.emit('}\n} // mod wasm')
    b.emit('} // verus!\nimpl Clone for wasm::RegExpBuilder { fn clone(&self) -> Self { unimplemented!() } }\nfn main() {}')
    b.trusted += ['#[wasm_bindgen] glue and JsValue are opaque; derived Clone on the wrapper is structural', 'wasm::from (filter_map over JsValue array) is not under contract']
    return b

CLI_FLAGS = {  # config field -> expression over cli, written from the help text of main.rs
 'minimum_repetitions': 'cli.minimum_repetitions', 'minimum_substring_length': 'cli.minimum_substring_length',
 'is_digit_converted': 'cli.is_digit_converted', 'is_non_digit_converted': 'cli.is_non_digit_converted',
 'is_space_converted': 'cli.is_space_converted', 'is_non_space_converted': 'cli.is_non_space_converted',
 'is_word_converted': 'cli.is_word_converted', 'is_non_word_converted': 'cli.is_non_word_converted',
 'is_repetition_converted': 'cli.is_repetition_converted', 'is_case_insensitive_matching': 'cli.is_case_ignored',
 'is_capturing_group_enabled': 'cli.is_group_captured', 'is_non_ascii_char_escaped': 'cli.is_non_ascii_char_escaped',
 'is_astral_code_point_converted_to_surrogate': '(cli.is_non_ascii_char_escaped && cli.is_astral_code_point_converted_to_surrogate)',
 'is_verbose_mode_enabled': 'cli.is_verbose_mode_enabled',
 'is_start_anchor_disabled': '(cli.is_caret_anchor_disabled || cli.are_anchors_disabled)',
 'is_end_anchor_disabled': '(cli.is_dollar_sign_anchor_disabled || cli.are_anchors_disabled)',
 'is_output_colorized': 'cli.is_output_colorized'}
DEFAULTS = {'minimum_repetitions': '1', 'minimum_substring_length': '1'}

def build_cli(repo, spec_dir, chunk=1, canary=False):
    b = Builder('cli', repo, canary)
    b.emit('use vstd::prelude::*;\nuse std::path::PathBuf;\nverus! {\n#[verifier::external_type_specification]\n#[verifier::external_body]\npub struct ExPathBuf(PathBuf);')
    B.emit_types_and_spec(b, lemmas=False)
    b.type_item('main.rs', r'^\s*pub\(crate\) struct Cli \{')
    fields = [f for f, _ in B.config_fields(b)]
    for f in fields:
        if f not in CLI_FLAGS: raise X.LostAnchor('RegExpConfig field %s has no CLI mapping in the contract' % f)
    b.emit('impl RegExpBuilder {')
    B.emit_setters(b)
    b.emit('''    #[verifier::external_body]
    pub fn from(test_cases: &Vec<String>) -> (r: Self) ensures r.config == default_config(), r.test_cases@ == test_cases@ { unimplemented!() }
    #[verifier::external_body]
    pub fn with_syntax_highlighting(&mut self) -> (r: &mut Self)
        ensures r.config == set_color(old(self).config), r.test_cases == old(self).test_cases, *final(r) == *final(self) { unimplemented!() }
}''')
    b.emit('pub open spec fn default_config() -> RegExpConfig { RegExpConfig { %s } }' % ', '.join('%s: %s' % (f, DEFAULTS.get(f, 'false')) for f in fields))
    ma = b.src('main.rs')
    hi, _, _ = X.fn(ma, 'handle_input')
    rng, _, _ = X.stmt_range(hi, 'let mut builder = RegExpBuilder::from(&test_cases);', 'let regexp = builder.build();')
    # split the statement range into top-level statements
    from vx import rustlex as L
    stmts = [rng[x:y] for (x, y) in L.split_stmts(rng)]
    first, rest = stmts[0], stmts[1:]
    # intermediate state after a prefix of the statements: the contract expression with not-yet-handled cli flags at their neutral value
    def flags_in(st): return set(re.findall(r'cli\.([a-z_]+)', st))
    def state(prefix, handled):
        out = []
        for f in fields:
            ex = CLI_FLAGS[f]
            def sub(m):
                return m.group(0) if m.group(1) in handled else (DEFAULTS.get(f, 'false'))
            out.append('%s.config.%s == %s' % (prefix, f, re.sub(r'cli\.([a-z_]+)', sub, ex)))
        return out
    chunks = [rest[k:k + chunk] for k in range(0, len(rest), chunk)]
    done = set()
    allflags = set(re.findall(r'cli\.([a-z_]+)', ' '.join(CLI_FLAGS.values())))
    for n, ch in enumerate(chunks):
        pre_done = set(done)
        for st in ch: done.update(flags_in(st))
        if n == len(chunks) - 1: done = set(allflags)          # the last postcondition is config_of(cli) itself
        req = ['cli.minimum_repetitions > 0', 'cli.minimum_substring_length > 0'] + state('old(builder)', pre_done)
        cls = [Clause('cli.chunk%d.%s' % (n, f), t, ['C12']) for f, t in zip(fields, state('final(builder)', done))]
        cls.append(Clause('cli.chunk%d.test_cases' % n, 'final(builder).test_cases == old(builder).test_cases', ['C12']))
        b.slice_fn('handle_input_chunk%d' % n, 'pub fn handle_input_chunk%d(cli: &Cli, builder: &mut RegExpBuilder)' % n, '\n'.join('    ' + s for s in ch),
                   'main.rs::handle_input statements %d..%d' % (n * chunk + 1, n * chunk + len(ch)), requires=req, clauses=cls, props=['C07', 'C12'])
    b.slice_fn('handle_input_first', 'pub fn handle_input_first(test_cases: Vec<String>) -> (builder: RegExpBuilder)', '    ' + first + '\n    builder',
               'main.rs::handle_input first statement', clauses=[Clause('cli.first', 'builder.config == default_config() && builder.test_cases@ == test_cases@', ['C12'])], props=['C07'])
    # threshold parser
    b.emit('pub uninterp spec fn parse_u32_spec(s: Seq<char>) -> Option<u32>;\n#[verifier::external_body] pub fn vx_parse_u32(s: &str) -> (r: Result<u32, ()>) ensures r is Ok ==> parse_u32_spec(s@) == Some(r->Ok_0) { unimplemented!() }')
    b.verified_fn('main.rs', 'repetition_options_parser', props=['C07'], fname='repetition_options_parser',
                  clauses=[Clause('cli.parser_rejects_zero', 'r is Ok ==> r->Ok_0 > 0', ['C12', 'C07'])],
                  extra_rules=[('R13', r'value\.parse::<u32>\(\)', 'vx_parse_u32(value)', 'str::parse::<u32> (uninterpreted)')])
    b.emit('} // verus!\nfn main() {}')
    b.trusted += ['clap attributes are stripped (R0): clap is assumed to fill Cli from the command line as the attribute text says and to apply value_parser',
                  'adjacent statement chunks of handle_input run back to back (sequential composition of slices)',
                  'RegExpBuilder::from / with_syntax_highlighting / build are assumed (iterator chain / cfg(feature) / pipeline)']
    return b
