"""Units `wasm` (C17) and `cli` (C12, C07): bindings call the library's setters / set the same fields."""
import re
from vx.assemble import Builder, Clause
from vx import extract as X, dialect as D
from units import builder as B

WASM = {'withConversionOfDigits': 'set_digit', 'withConversionOfNonDigits': 'set_non_digit', 'withConversionOfWhitespace': 'set_space',
        'withConversionOfNonWhitespace': 'set_non_space', 'withConversionOfWords': 'set_word', 'withConversionOfNonWords': 'set_non_word',
        'withConversionOfRepetitions': 'set_rep', 'withCaseInsensitiveMatching': 'set_ci', 'withCapturingGroups': 'set_cap',
        'withVerboseMode': 'set_verbose', 'withoutStartAnchor': 'set_no_start', 'withoutEndAnchor': 'set_no_end', 'withoutAnchors': 'set_no_anchors'}

def build_wasm(repo, spec_dir, canary=False):
    b = Builder('wasm', repo, canary)
    b.emit('use vstd::prelude::*;\nverus! {')
    B.emit_types_and_spec(b, lemmas=False)
    bu = b.src('builder.rs')
    for c in ['MINIMUM_REPETITIONS_MESSAGE', 'MINIMUM_SUBSTRING_LENGTH_MESSAGE', 'MISSING_TEST_CASES_MESSAGE']:
        st, _, _ = X.item(bu + '', r'^pub\(crate\) const ' + c) if False else (None, None, None)
        m = re.search(r'pub\(crate\) const ' + c + r': &str =\s*("(?:[^"\\]|\\.)*");', bu)
        if not m: raise X.LostAnchor(c)
        b.emit("pub const %s: &'static str = %s;" % (c, m.group(1)))
    b.emit('''#[verifier::external_body] pub struct JsValue { x: u8 }
pub uninterp spec fn js_of(s: Seq<char>) -> JsValue;
impl JsValue { #[verifier::external_body] pub fn from(s: &str) -> (r: JsValue) ensures r == js_of(s@) { unimplemented!() } }
pub uninterp spec fn build_spec(b: RegExpBuilder) -> Seq<char>;
impl RegExpBuilder { #[verifier::external_body] pub fn build(&mut self) -> (r: String) ensures r@ == build_spec(*old(self)), final(self).config == old(self).config { unimplemented!() } }
pub mod wasm {
use super::*;
use super::RegExpBuilder as Builder;''')
    b.type_item('wasm.rs', r'^pub struct RegExpBuilder \{')
    b.emit('pub assume_specification [<RegExpBuilder as Clone>::clone] (e: &RegExpBuilder) -> (r: RegExpBuilder) ensures r == *e;')
    fields = [f for f, _ in B.config_fields(b)]
    b.emit('pub open spec fn default_config() -> RegExpConfig { RegExpConfig { %s } }' % ', '.join('%s: %s' % (f, {'minimum_repetitions': '1', 'minimum_substring_length': '1'}.get(f, 'false')) for f in fields))
    b.emit('''// the JavaScript strings among the elements of the array, in order (JsValue::as_string is Some exactly for JS strings): opaque
pub uninterp spec fn js_strings(a: Box<[JsValue]>) -> Seq<String>;
#[verifier::external_body] pub fn vx_js_strings(a: &Box<[JsValue]>) -> (r: Vec<String>) ensures r@ == js_strings(*a) { unimplemented!() }
impl Builder {
    #[verifier::external_body]
    pub fn from(test_cases: &Vec<String>) -> (r: Self)
        requires test_cases@.len() > 0        // the library's documented panic on an empty list: the binding must never reach it (C17: "throws instead of trapping")
        ensures r.config == default_config(), r.test_cases@ == test_cases@ { unimplemented!() }
}''')
    b.emit('impl RegExpBuilder {')
    W = r'^impl RegExpBuilder \{'
    b.verified_fn('wasm.rs', 'from', within=W, props=['C07'], fname='wasm::from',
                  extra_rules=[('R19', r'testCases\s*\.iter\(\)\s*\.filter_map\(\|it\| it\.as_string\(\)\)\s*\.collect_vec\(\)', 'vx_js_strings(&testCases)', 'iter().filter_map(|it| it.as_string()).collect_vec(): the JS strings of the array, in order (uninterpreted)')],
                  clauses=[Clause('wasm.from.no_strings_throws_the_library_message', 'js_strings(testCases).len() == 0 ==> r is Err && r->Err_0 == js_of(MISSING_TEST_CASES_MESSAGE@)', ['C17', 'C07']),
                           Clause('wasm.from.builder_over_the_strings_with_default_settings', 'js_strings(testCases).len() > 0 ==> r is Ok && r->Ok_0.builder.test_cases@ == js_strings(testCases) && r->Ok_0.builder.config == default_config()', ['C17'])])
    for m, sp in WASM.items():
        b.verified_fn('wasm.rs', m, within=W, props=['C07'], fname='wasm::' + m, clauses=[
            Clause('wasm.%s.effect' % m, 'final(self).builder.config == %s(old(self).builder.config)' % sp, ['C17']),
            Clause('wasm.%s.frame' % m, 'final(self).builder.test_cases == old(self).builder.test_cases && r == *final(self)', ['C17'])])
    b.verified_fn('wasm.rs', 'withEscapingOfNonAsciiChars', within=W, props=['C07'], fname='wasm::withEscapingOfNonAsciiChars', clauses=[
        Clause('wasm.withEscapingOfNonAsciiChars.effect', 'final(self).builder.config == set_escape(old(self).builder.config, useSurrogatePairs) && final(self).builder.test_cases == old(self).builder.test_cases && r == *final(self)', ['C17'])])
    for m, sp, p, msg in [('withMinimumRepetitions', 'set_min_rep', 'quantity', 'MINIMUM_REPETITIONS_MESSAGE'), ('withMinimumSubstringLength', 'set_min_len', 'length', 'MINIMUM_SUBSTRING_LENGTH_MESSAGE')]:
        b.verified_fn('wasm.rs', m, within=W, props=['C07'], fname='wasm::' + m, clauses=[
            Clause('wasm.%s.zero' % m, '%s == 0 ==> (r is Err && r->Err_0 == js_of(%s@) && *final(self) == *old(self))' % (p, msg), ['C17']),
            Clause('wasm.%s.positive' % m, '%s > 0 ==> (r is Ok && r->Ok_0 == *final(self) && final(self).builder.config == %s(old(self).builder.config, %s) && final(self).builder.test_cases == old(self).builder.test_cases)' % (p, sp, p), ['C17'])])
    b.verified_fn('wasm.rs', 'build', within=W, props=['C07'], fname='wasm::build', clauses=[
        Clause('wasm.build.delegates', 'r@ == build_spec(old(self).builder)', ['C17'])])
    b.emit('}\n} // mod wasm')
    b.emit('} // verus!\nimpl Clone for wasm::RegExpBuilder { fn clone(&self) -> Self { unimplemented!() } }\nfn main() {}')
    b.trusted += ['#[wasm_bindgen] glue and JsValue are opaque; derived Clone on the wrapper is structural', 'wasm::from: `iter().filter_map(|it| it.as_string()).collect_vec()` is the list of the JS strings of the array (uninterpreted `js_strings`; non-string elements are dropped silently by the code as it is); the library constructor RegExpBuilder::from is assumed (default settings, the given test cases; panics on an empty list)']
    return b

CLI_FLAGS = {  # config field -> expression over cli, written from the help text of main.rs
 'minimum_repetitions': 'cli.minimum_repetitions', 'minimum_substring_length': 'cli.minimum_substring_length',
 'is_digit_converted': 'cli.is_digit_converted', 'is_non_digit_converted': 'cli.is_non_digit_converted',
 'is_space_converted': 'cli.is_space_converted', 'is_non_space_converted': 'cli.is_non_space_converted',
 'is_word_converted': 'cli.is_word_converted', 'is_non_word_converted': 'cli.is_non_word_converted',
 'is_repetition_converted': 'cli.is_repetition_converted', 'is_case_insensitive_matching': 'cli.is_case_ignored',
 'is_capturing_group_enabled': 'cli.is_group_captured', 'is_non_ascii_char_escaped': 'cli.is_non_ascii_char_escaped',
 'is_astral_code_point_converted_to_surrogate': '(cli.is_non_ascii_char_escaped && cli.is_astral_code_point_converted_to_surrogate)',
 'is_verbose_mode_enabled': 'cli.is_verbose_mode_enabled',
 'is_start_anchor_disabled': '(cli.is_caret_anchor_disabled || cli.are_anchors_disabled)',
 'is_end_anchor_disabled': '(cli.is_dollar_sign_anchor_disabled || cli.are_anchors_disabled)',
 'is_output_colorized': 'cli.is_output_colorized'}
DEFAULTS = {'minimum_repetitions': '1', 'minimum_substring_length': '1'}

def build_cli(repo, spec_dir, chunk=1, canary=False):
    b = Builder('cli', repo, canary)
    b.emit('use vstd::prelude::*;\nuse std::path::PathBuf;\nverus! {\n#[verifier::external_type_specification]\n#[verifier::external_body]\npub struct ExPathBuf(PathBuf);')
    B.emit_types_and_spec(b, lemmas=False)
    b.type_item('main.rs', r'^\s*pub\(crate\) struct Cli \{')
    fields = [f for f, _ in B.config_fields(b)]
    for f in fields:
        if f not in CLI_FLAGS: raise X.LostAnchor('RegExpConfig field %s has no CLI mapping in the contract' % f)
    b.emit('impl RegExpBuilder {')
    B.emit_setters(b)
    b.emit('''    #[verifier::external_body]
    pub fn from(test_cases: &Vec<String>) -> (r: Self)
        requires test_cases@.len() > 0        // the documented panic of the library (unit builder: from.empty_list_panics); the CLI must never reach it (C12)
        ensures r.config == default_config(), r.test_cases@ == test_cases@ { unimplemented!() }
    #[verifier::external_body]
    pub fn with_syntax_highlighting(&mut self) -> (r: &mut Self)
        ensures r.config == set_color(old(self).config), r.test_cases == old(self).test_cases, *final(r) == *final(self) { unimplemented!() }
}''')
    b.emit('pub open spec fn default_config() -> RegExpConfig { RegExpConfig { %s } }' % ', '.join('%s: %s' % (f, DEFAULTS.get(f, 'false')) for f in fields))
    ma = b.src('main.rs')
    hi, _, _ = X.fn(ma, 'handle_input')
    rng, _, _ = X.stmt_range(hi, 'let mut builder = RegExpBuilder::from(&test_cases);', 'let regexp = builder.build();')
    # split the statement range into top-level statements
    from vx import rustlex as L
    stmts = [rng[x:y] for (x, y) in L.split_stmts(rng)]
    first, rest = stmts[0], stmts[1:]
    # intermediate state after a prefix of the statements: the contract expression with not-yet-handled cli flags at their neutral value
    def flags_in(st): return set(re.findall(r'cli\.([a-z_]+)', st))
    def state(prefix, handled):
        out = []
        for f in fields:
            ex = CLI_FLAGS[f]
            def sub(m):
                return m.group(0) if m.group(1) in handled else (DEFAULTS.get(f, 'false'))
            out.append('%s.config.%s == %s' % (prefix, f, re.sub(r'cli\.([a-z_]+)', sub, ex)))
        return out
    chunks = [rest[k:k + chunk] for k in range(0, len(rest), chunk)]
    done = set()
    allflags = set(re.findall(r'cli\.([a-z_]+)', ' '.join(CLI_FLAGS.values())))
    for n, ch in enumerate(chunks):
        pre_done = set(done)
        for st in ch: done.update(flags_in(st))
        if n == len(chunks) - 1: done = set(allflags)          # the last postcondition is config_of(cli) itself
        req = ['cli.minimum_repetitions > 0', 'cli.minimum_substring_length > 0'] + state('old(builder)', pre_done)
        cls = [Clause('cli.chunk%d.%s' % (n, f), t, ['C12']) for f, t in zip(fields, state('final(builder)', done))]
        cls.append(Clause('cli.chunk%d.test_cases' % n, 'final(builder).test_cases == old(builder).test_cases', ['C12']))
        b.slice_fn('handle_input_chunk%d' % n, 'pub fn handle_input_chunk%d(cli: &Cli, builder: &mut RegExpBuilder)' % n, '\n'.join('    ' + s for s in ch),
                   'main.rs::handle_input statements %d..%d' % (n * chunk + 1, n * chunk + len(ch)), requires=req, clauses=cls, props=['C07', 'C12'])
    # everything of the Ok arm in front of the flag mapping: the guard(s) against unusable input and the construction of the builder
    arm, _, _ = X.block_after(hi, 'Ok(test_cases) => ')
    inner = arm[1:-1]
    sts = [inner[x:y] for (x, y) in L.split_stmts(inner)]
    k = [i for i, t in enumerate(sts) if t.strip().startswith('let mut builder = RegExpBuilder::from(')]
    if not k: raise X.LostAnchor('main.rs::handle_input construction of the builder')
    head = '\n'.join('    ' + t.strip() for t in sts[:k[0] + 1])
    b.emit('pub struct VxError { pub x: u8 }\n#[verifier::external_body] pub fn vx_error(msg: &str) -> (r: VxError) { unimplemented!() }')
    b.slice_fn('handle_input_first', 'pub fn handle_input_first(test_cases: Vec<String>) -> (r: Result<RegExpBuilder, VxError>)', head + '\n    Ok(builder)',
               'main.rs::handle_input Ok arm up to the construction of the builder', props=['C07', 'C12'],
               clauses=[Clause('cli.first', 'r is Ok ==> r->Ok_0.config == default_config() && r->Ok_0.test_cases@ == test_cases@', ['C12']),
                        Clause('cli.unusable_input_is_an_error_not_a_panic', '(test_cases@.len() == 0 ==> r is Err) && (test_cases@.len() > 0 ==> r is Ok)', ['C12', 'C07'])],
               extra_rules=[('R19', r'Err\(("(?:[^"\\\\]|\\\\.)*")\.into\(\)\)', r'Err(vx_error(\1))', '&str -> Box<dyn Error> (opaque error value)')])
    # obtain_input, the branch that reads the test cases from standard input: whatever bytes arrive, a line that is not valid UTF-8 is an io::Error
    # (std: BufRead::lines yields Err(InvalidData)), and C12 wants it reported, not unwrapped
    oi, _, _ = X.fn(ma, 'obtain_input')
    blk, _, _ = X.block_after(oi, 'if is_single_item && is_hyphen && is_stdin_available ')
    body = blk[1:-1]
    def stdin_rules(t, log, w):
        t2 = re.sub(r'stdin\(\)\s*\.lock\(\)\s*\.lines\(\)', 'vx_lines', t)
        if t2 == t: raise X.LostAnchor('main.rs::obtain_input: stdin().lock().lines()')
        log.add('R30', w, 'stdin().lock().lines()', 'vx_lines: an arbitrary sequence of io::Result<String> (parameter of the slice)')
        t = t2
        k = t.find('.map(')
        if k >= 0:
            pc = L.match_close(t, k + 4)
            tail = re.match(r'\s*\.collect_vec\(\)', t[pc + 1:])
            recv = re.search(r'vx_lines\s*$', t[:k])
            if tail and recv:
                log.add('R30', w, 'vx_lines.map(closure).collect_vec()', 'vx_map_collect(vx_lines, closure): applies the closure to every element, in order (its precondition must hold for every element)')
                t = t[:recv.start()] + 'vx_map_collect(vx_lines, %s)' % t[k + 5:pc] + t[pc + 1 + tail.end():]
        t2 = re.sub(r'vx_lines\s*\.collect::<Result<Vec<String>, Error>>\(\)', 'vx_collect_results(vx_lines)', t)
        if t2 != t: log.add('R30', w, 'vx_lines.collect::<Result<Vec<String>, Error>>()', 'vx_collect_results(vx_lines): Ok(all lines) or the first Err (FromIterator for Result)')
        return t2
    b.emit('''pub struct Error { pub kind: u8 }       // std::io::Error (opaque)
pub open spec fn all_ok(v: Seq<Result<String, Error>>) -> bool { forall|i: int| 0 <= i < v.len() ==> (#[trigger] v[i]) is Ok }
#[verifier::external_body] pub fn vx_map_collect<F: Fn(Result<String, Error>) -> String>(v: Vec<Result<String, Error>>, f: F) -> (r: Vec<String>)
    requires forall|i: int| 0 <= i < v@.len() ==> f.requires((#[trigger] v@[i],))
    ensures r@.len() == v@.len(), forall|i: int| 0 <= i < v@.len() ==> f.ensures((v@[i],), #[trigger] r@[i]) { unimplemented!() }
#[verifier::external_body] pub fn vx_collect_results(v: Vec<Result<String, Error>>) -> (r: Result<Vec<String>, Error>)
    ensures all_ok(v@) <==> r is Ok, r is Ok ==> r->Ok_0@.len() == v@.len() && forall|i: int| 0 <= i < v@.len() ==> (#[trigger] v@[i])->Ok_0 == r->Ok_0@[i] { unimplemented!() }''')
    b.slice_fn('obtain_input_stdin', 'pub fn obtain_input_stdin(vx_lines: Vec<Result<String, Error>>) -> (r: Result<Vec<String>, Error>)', '    ' + body.strip(),
               'main.rs::obtain_input block of `if is_single_item && is_hyphen && is_stdin_available`', props=['C07', 'C12'], pre=stdin_rules,
               clauses=[Clause('cli.stdin_invalid_utf8_is_an_error_not_a_panic', '(all_ok(vx_lines@) <==> r is Ok) && (r is Ok ==> r->Ok_0@.len() == vx_lines@.len())', ['C12', 'C07'])])
    # threshold parser
    b.emit('pub uninterp spec fn parse_u32_spec(s: Seq<char>) -> Option<u32>;\n#[verifier::external_body] pub fn vx_parse_u32(s: &str) -> (r: Result<u32, ()>) ensures r is Ok ==> parse_u32_spec(s@) == Some(r->Ok_0) { unimplemented!() }')
    b.verified_fn('main.rs', 'repetition_options_parser', props=['C07'], fname='repetition_options_parser',
                  clauses=[Clause('cli.parser_rejects_zero', 'r is Ok ==> r->Ok_0 > 0', ['C12', 'C07'])],
                  extra_rules=[('R13', r'value\.parse::<u32>\(\)', 'vx_parse_u32(value)', 'str::parse::<u32> (uninterpreted)')])
    # the tail of the Ok arm: the build result goes to standard output followed by exactly one newline, and the run succeeds (exit status 0)
    tail, _, _ = X.stmt_range(hi, 'let regexp = builder.build();', 'Err(error) => match')
    k = tail.rfind('Ok(())')
    if k < 0: raise X.LostAnchor('main.rs::handle_input: Ok(()) after the output')
    tail = tail[:k + len('Ok(())')]
    b.emit("""pub uninterp spec fn build_text(b: RegExpBuilder) -> Seq<char>;       // what the library's build() returns for this builder (the pipeline; opaque here)
impl RegExpBuilder { #[verifier::external_body] pub fn build(&mut self) -> (r: String) ensures r@ == build_text(*old(self)), *final(self) == *old(self) { unimplemented!() } }
// standard output as a ghost text; println!("{}", x) writes x followed by one line feed, print! writes x alone (std)
pub struct VxStdout { pub text: Ghost<Seq<char>> }
impl VxStdout {
    #[verifier::external_body] pub fn vx_println(&mut self, s: &str) ensures final(self).text@ == old(self).text@ + s@ + seq!['\\n'] { unimplemented!() }
    #[verifier::external_body] pub fn vx_print(&mut self, s: &str) ensures final(self).text@ == old(self).text@ + s@ { unimplemented!() }
}""")
    def out_rules(t, log, w):
        t2 = re.sub(r'\bprintln!\("\{\}", ([^;]+?)\);', r'vx_out.vx_println(&*(\1));', t)
        t2 = re.sub(r'\bprint!\("\{\}", ([^;]+?)\);', r'vx_out.vx_print(&*(\1));', t2)
        if t2 != t: log.add('R37', w, 'println!("{}", X); / print!("{}", X);', 'vx_out.vx_println(&X); / vx_out.vx_print(&X); -- standard output as a ghost text (parameter of the slice)')
        return t2
    b.slice_fn('handle_input_output', 'pub fn handle_input_output(builder: &mut RegExpBuilder, vx_out: &mut VxStdout) -> (r: Result<(), VxError>)', '    ' + tail.strip(),
               'main.rs::handle_input Ok arm from `let regexp = builder.build();` to `Ok(())`', props=['C07', 'C12'], pre=out_rules,
               clauses=[Clause('cli.prints_the_build_result_and_one_newline', "final(vx_out).text@ == old(vx_out).text@ + build_text(*old(builder)) + seq!['\\n']", ['C12']),
                        Clause('cli.success_after_printing', 'r is Ok', ['C12'])])
    # the -f channel: every line of the file becomes a test case as it is
    k2 = oi.find('Ok(file_content) =>')
    if k2 < 0: raise X.LostAnchor('main.rs::obtain_input: Ok(file_content) arm')
    ce, _, _ = X.closure_expr(oi[k2:], '.map(|it| ')
    b.emit('''pub uninterp spec fn trimmed(s: Seq<char>, mode: int) -> Seq<char>;       // str::trim / trim_start / trim_end (not the identity)
pub assume_specification [str::trim] (s: &str) -> (r: &str) ensures r@ == trimmed(s@, 0);
pub assume_specification [str::trim_start] (s: &str) -> (r: &str) ensures r@ == trimmed(s@, 1);
pub assume_specification [str::trim_end] (s: &str) -> (r: &str) ensures r@ == trimmed(s@, 2);
#[verifier::external_body] pub fn vx_str_to_string(s: &str) -> (r: String) ensures r@ == s@ { unimplemented!() }''')
    b.slice_fn('file_line', 'pub fn file_line(it: &str) -> (r: String)', '    ' + ce, 'main.rs::obtain_input closure |it| of `file_content.lines().map(..)`', props=['C07', 'C12'],
               extra_rules=[('R4', r'\b(it(?:\.\w+\(\))*)\.to_string\(\)', r'vx_str_to_string(\1)', '&str -> String copy')],
               clauses=[Clause('cli.file_line_is_kept_as_it_is', 'r@ == it@', ['C12'])])
    # `-f -`: the file name arrives on standard input; it is used without the surrounding white space (the line feed a shell appends) and nothing else is done to it
    mpath = re.search(r'PathBuf::from\(([^;]*?)\)\n', oi)
    if not mpath: raise X.LostAnchor('main.rs::obtain_input: PathBuf::from(..) of the file name read from standard input')
    b.emit("""pub uninterp spec fn path_of(text: Seq<char>) -> PathBuf;
#[verifier::external_body] pub fn vx_path_from(s: &str) -> (r: PathBuf) ensures r == path_of(s@) { unimplemented!() }""")
    b.slice_fn('stdin_file_name', 'pub fn stdin_file_name(stdin_file_path: String) -> (r: PathBuf)', '    ' + mpath.group(0).strip(), 'main.rs::obtain_input expression `PathBuf::from(stdin_file_path.trim())`', props=['C07', 'C12'],
               extra_rules=[('R19', r'PathBuf::from\(', 'vx_path_from(', 'PathBuf::from(&str): the path with that text (path_of, uninterpreted)')],
               clauses=[Clause('cli.file_name_from_stdin_is_trimmed_and_otherwise_kept', 'r == path_of(trimmed(stdin_file_path@, 0))', ['C12'])])
    b.emit('} // verus!\nimpl std::fmt::Debug for Error { fn fmt(&self, f: &mut std::fmt::Formatter<\'_>) -> std::fmt::Result { unimplemented!() } }\nfn main() {}')
    b.trusted += ['clap attributes are stripped (R0): clap is assumed to fill Cli from the command line as the attribute text says and to apply value_parser',
                  'adjacent statement chunks of handle_input run back to back (sequential composition of slices)',
                  'RegExpBuilder::from / with_syntax_highlighting / build are assumed (iterator chain / cfg(feature) / pipeline)',
                  'println!("{}", x) writes x and one line feed to standard output (R37; std); that standard output is not written anywhere else, and that main() turns Ok into exit status 0 and Err into 1, is read off main.rs (6 lines), not verified']
    return b

# ---------------------------------------------------------------------------------------------------------------------
PY = {'py_with_conversion_of_digits': 'set_digit', 'py_with_conversion_of_non_digits': 'set_non_digit', 'py_with_conversion_of_whitespace': 'set_space',
      'py_with_conversion_of_non_whitespace': 'set_non_space', 'py_with_conversion_of_words': 'set_word', 'py_with_conversion_of_non_words': 'set_non_word',
      'py_with_conversion_of_repetitions': 'set_rep', 'py_with_case_insensitive_matching': 'set_ci', 'py_with_capturing_groups': 'set_cap',
      'py_with_verbose_mode': 'set_verbose', 'py_without_start_anchor': 'set_no_start', 'py_without_end_anchor': 'set_no_end', 'py_without_anchors': 'set_no_anchors'}

def _py_escape_forms(b):
    """C14: every \\u{h..} escape the library can print (char::escape_unicode: 1..=6 lower-case hex digits, no leading zeros) is rewritten to Python's
    \\uXXXX (up to 4 digits) or \\UXXXXXXXX (5 or 6 digits).  The digit ranges and the output forms are READ from the regex literals and the format
    strings of replace_unicode_escape_sequences; the obligation over them is discharged by Verus."""
    py = b.src('python.rs')
    f, _, _ = X.fn(py, 'replace_unicode_escape_sequences')
    regs = re.findall(r'static ref (\w+): Regex\s*=\s*Regex::new\(r"([^"]*)"\)\.unwrap\(\);', f)
    if not regs: raise X.LostAnchor('python.rs::replace_unicode_escape_sequences: lazy_static regexes')
    rng = {}
    for name, pat in regs:
        m = re.fullmatch(r'\\\\u\\\{\(\[0-9a-f\]\{(\d+)(?:,(\d+))?\}\)\\\}', pat)
        if not m: raise X.LostAnchor('python.rs::replace_unicode_escape_sequences: pattern %r is not \\\\u\\{([0-9a-f]{m[,n]})\\}' % pat)
        rng[name] = (int(m.group(1)), int(m.group(2) or m.group(1)))
    calls = re.findall(r'\b(\w+)\s*\.replace_all\(\s*&\w+\s*,\s*\|caps: &Captures\|\s*\{?\s*format!\("((?:[^"\\\\]|\\\\.)*)",\s*&caps\[1\]\)\s*\}?\s*\)', f)
    if len(calls) != f.count('.replace_all(') or not calls: raise X.LostAnchor('python.rs::replace_unicode_escape_sequences: a replace_all call is not `R.replace_all(&s, |caps: &Captures| format!("..", &caps[1]))`')
    forms = []
    for name, fmt in calls:
        if name not in rng: raise X.LostAnchor('python.rs::replace_unicode_escape_sequences: unknown regex %s' % name)
        m = re.fullmatch(r'\\\\([uU])(0*)\{(?::0>(\d+))?\}', fmt)
        if not m: raise X.LostAnchor('python.rs::replace_unicode_escape_sequences: format string %r' % fmt)
        forms.append((rng[name][0], rng[name][1], m.group(1), len(m.group(2)), int(m.group(3) or 0)))
    b.log.add('R7', 'python.rs::replace_unicode_escape_sequences', '%d regex literals, %d replace_all calls' % (len(regs), len(calls)), 'py_forms(): (min digits, max digits, prefix, literal zeros, pad width) per call, in call order')
    b.emit('''// one entry per replace_all call, in call order: the digit counts its regex matches, the Python prefix it writes, literal zeros, {:0>w} pad width
pub struct PyForm { pub lo: int, pub hi: int, pub prefix: char, pub zeros: int, pub width: int }
pub open spec fn py_forms() -> Seq<PyForm> { seq![%s] }
pub open spec fn covers(f: PyForm, d: int) -> bool { f.lo <= d <= f.hi }
pub open spec fn out_digits(f: PyForm, d: int) -> int { f.zeros + if d >= f.width { d } else { f.width } }
// what C14 demands of an escape with d hex digits (d <= 4: a BMP code point, d >= 5: above U+FFFF)
pub open spec fn python_form(f: PyForm, d: int) -> bool { if d <= 4 { f.prefix == 'u' && out_digits(f, d) == 4 } else { f.prefix == 'U' && out_digits(f, d) == 8 } }
pub open spec fn first_cover(d: int, k: int) -> bool { 0 <= k < py_forms().len() && covers(py_forms()[k], d) && forall|j: int| 0 <= j < k ==> !covers(#[trigger] py_forms()[j], d) }''' % ', '.join("PyForm { lo: %d, hi: %d, prefix: '%s', zeros: %d, width: %d }" % fm for fm in forms))
    b.emit('pub open spec fn rewritten_ok(d: int) -> bool { exists|k: int| #[trigger] first_cover(d, k) && python_form(py_forms()[k], d) }')
    b.lemma('python.every_escape_length_is_rewritten', ['C14'], '''pub proof fn lemma_every_escape_length_is_rewritten()
    ensures rewritten_ok(1) && rewritten_ok(2) && rewritten_ok(3) && rewritten_ok(4) && rewritten_ok(5) && rewritten_ok(6)       // char::escape_unicode writes 1..=6 hex digits
{
    %s
}''' % '\n    '.join('assert(rewritten_ok(%d)) by { %s }' % (d, ' '.join('if first_cover(%d, %d) && python_form(py_forms()[%d], %d) { }' % (d, k, k, d) for k in range(len(forms)))) for d in range(1, 7)))

def build_python(repo, spec_dir, canary=False):
    """C14: the #[pymethods] wrappers have exactly the library setters' effect; errors carry the library's messages; build applies the escape rewrite iff escaping is on."""
    b = Builder('python', repo, canary)
    b.emit('use vstd::prelude::*;\nverus! {')
    B.emit_types_and_spec(b, lemmas=False)
    bu = b.src('builder.rs')
    for c in ['MISSING_TEST_CASES_MESSAGE', 'MINIMUM_REPETITIONS_MESSAGE', 'MINIMUM_SUBSTRING_LENGTH_MESSAGE']:
        m = re.search(r'pub\(crate\) const ' + c + r': &str =\s*("(?:[^"\\]|\\.)*");', bu)
        if not m: raise X.LostAnchor(c)
        b.emit("pub const %s: &'static str = %s;" % (c, m.group(1)))
    b.emit('''// pyo3 stand-ins (rule R20): PyRefMut<Self> is an exclusive borrow of the Python-owned object, PyResult<T> = Result<T, PyErr>
pub struct PyErr { pub x: u8 }
pub type PyResult<T> = Result<T, PyErr>;
pub uninterp spec fn value_error(msg: Seq<char>) -> PyErr;
pub struct PyValueError { pub x: u8 }
impl PyValueError { #[verifier::external_body] pub fn new_err(msg: &str) -> (r: PyErr) ensures r == value_error(msg@) { unimplemented!() } }
pub uninterp spec fn build_spec(b: RegExpBuilder) -> Seq<char>;
pub uninterp spec fn py_escapes(s: Seq<char>) -> Seq<char>;     // \\u{h..} -> \\uXXXX / \\UXXXXXXXX (two regex replace_all calls; not decided)
#[verifier::external_body] pub fn replace_unicode_escape_sequences(regexp: String) -> (r: String) ensures r@ == py_escapes(regexp@) { unimplemented!() }
impl RegExpConfig {''')
    b.verified_fn('config.rs', 'new', within=r'^impl RegExpConfig \{', props=['C07'], fname='RegExpConfig::new',
                  clauses=[Clause('python.config_new', 'r == default_config()', ['C14'])])
    fields = [f for f, _ in B.config_fields(b)]
    b.emit('}\npub open spec fn default_config() -> RegExpConfig { RegExpConfig { %s } }' % ', '.join('%s: %s' % (f, DEFAULTS.get(f, 'false')) for f in fields))
    b.emit('''impl RegExpBuilder {
    #[verifier::external_body] pub fn build(&mut self) -> (r: String) ensures r@ == build_spec(*old(self)), final(self).config == old(self).config { unimplemented!() }''')
    P = r'^impl RegExpBuilder \{'
    R20 = [('R20', r'\bmut self_: PyRefMut<Self>', 'self_: &mut Self', 'pyo3 PyRefMut<Self> = exclusive borrow'), ('R20', r'PyRefMut<Self>', '&mut Self', 'pyo3 PyRefMut<Self> = exclusive borrow')]
    src = 'python.rs'
    b.verified_fn(src, 'new', within=P, props=['C07'], fname='python::new', extra_rules=R20, clauses=[
        Clause('python.new.empty', 'test_cases@.len() == 0 ==> r is Err && r->Err_0 == value_error(MISSING_TEST_CASES_MESSAGE@)', ['C14']),
        Clause('python.new.nonempty', 'test_cases@.len() > 0 ==> r is Ok && r->Ok_0.test_cases == test_cases && r->Ok_0.config == default_config()', ['C14'])])
    for m, sp in PY.items():
        b.verified_fn(src, m, within=P, props=['C07'], fname='python::' + m, extra_rules=R20, clauses=[
            Clause('python.%s.effect' % m, 'r.config == %s(old(self_).config)' % sp, ['C14']),
            Clause('python.%s.frame' % m, 'r.test_cases == old(self_).test_cases && *final(r) == *final(self_)', ['C14'])])
    b.verified_fn(src, 'py_with_escaping_of_non_ascii_chars', within=P, props=['C07'], fname='python::py_with_escaping_of_non_ascii_chars', extra_rules=R20, clauses=[
        Clause('python.py_with_escaping_of_non_ascii_chars.effect', 'r.config == set_escape(old(self_).config, use_surrogate_pairs) && r.test_cases == old(self_).test_cases && *final(r) == *final(self_)', ['C14'])])
    for m, sp, p, msg in [('py_with_minimum_repetitions', 'set_min_rep', 'quantity', 'MINIMUM_REPETITIONS_MESSAGE'), ('py_with_minimum_substring_length', 'set_min_len', 'length', 'MINIMUM_SUBSTRING_LENGTH_MESSAGE')]:
        b.verified_fn(src, m, within=P, props=['C07'], fname='python::' + m, extra_rules=R20, clauses=[
            Clause('python.%s.nonpositive' % m, '%s <= 0 ==> (r is Err && r->Err_0 == value_error(%s@) && *final(self_) == *old(self_))' % (p, msg), ['C14']),
            Clause('python.%s.positive' % m, '%s > 0 ==> (r is Ok && r->Ok_0.config == %s(old(self_).config, %s as u32) && r->Ok_0.test_cases == old(self_).test_cases && *final(r->Ok_0) == *final(self_))' % (p, sp, p), ['C14'])])
    b.verified_fn(src, 'py_build', within=P, props=['C07'], fname='python::py_build', extra_rules=R20, clauses=[
        Clause('python.build.delegates', 'r@ == (if old(self).config.is_non_ascii_char_escaped { py_escapes(build_spec(*old(self))) } else { build_spec(*old(self)) })', ['C14'])])
    b.emit('}')
    _py_escape_forms(b)
    b.emit('} // verus!\nfn main() {}')
    b.trusted += ['pyo3 glue (#[pymethods], #[new], #[classmethod], #[pyo3(name)]) is stripped (R0); PyRefMut<Self> is treated as an exclusive borrow (R20); PyValueError::new_err builds a ValueError with the given message',
                  'replace_unicode_escape_sequences: the regex crate matches `\\\\u\\{([0-9a-f]{m,n})\\}` exactly on \\u{ + m..n lower-case hex digits + }, replace_all rewrites every match with the closure\'s text, format! pads as documented ({:0>w}); only the digit counts and the produced forms are decided, from the literals found in the source', 'RegExpBuilder::build is the library pipeline (opaque here)']
    return b
