"""Unit `builder`: RegExpBuilder setters (C10 history independence, C12/C17 shared spec, C07 documented panics)."""
import re
from vx.assemble import Builder, Clause
from vx import extract as X

NAME = 'builder'
SETTERS = {  # method -> (spec fn, fields set to true)
 'with_conversion_of_digits': ('set_digit', ['is_digit_converted']),
 'with_conversion_of_non_digits': ('set_non_digit', ['is_non_digit_converted']),
 'with_conversion_of_whitespace': ('set_space', ['is_space_converted']),
 'with_conversion_of_non_whitespace': ('set_non_space', ['is_non_space_converted']),
 'with_conversion_of_words': ('set_word', ['is_word_converted']),
 'with_conversion_of_non_words': ('set_non_word', ['is_non_word_converted']),
 'with_conversion_of_repetitions': ('set_rep', ['is_repetition_converted']),
 'with_case_insensitive_matching': ('set_ci', ['is_case_insensitive_matching']),
 'with_capturing_groups': ('set_cap', ['is_capturing_group_enabled']),
 'with_verbose_mode': ('set_verbose', ['is_verbose_mode_enabled']),
 'without_start_anchor': ('set_no_start', ['is_start_anchor_disabled']),
 'without_end_anchor': ('set_no_end', ['is_end_anchor_disabled']),
 'without_anchors': ('set_no_anchors', ['is_start_anchor_disabled', 'is_end_anchor_disabled']),
}
def config_fields(b):
    t, _, _ = X.item(b.src('config.rs'), r'^pub struct RegExpConfig \{')
    return re.findall(r'^\s*pub(?:\(crate\))? ([a-z_]+):\s*([a-z0-9]+)', t, flags=re.M)

def config_spec(fields):
    s = ''
    for m, (sp, fs) in SETTERS.items():
        s += 'pub open spec fn %s(c: RegExpConfig) -> RegExpConfig { RegExpConfig { %s, ..c } }\n' % (sp, ', '.join(f + ': true' for f in fs))
    s += 'pub open spec fn set_escape(c: RegExpConfig, sp: bool) -> RegExpConfig { RegExpConfig { is_non_ascii_char_escaped: true, is_astral_code_point_converted_to_surrogate: sp, ..c } }\n'
    s += 'pub open spec fn set_min_rep(c: RegExpConfig, q: u32) -> RegExpConfig { RegExpConfig { minimum_repetitions: q, ..c } }\n'
    s += 'pub open spec fn set_min_len(c: RegExpConfig, q: u32) -> RegExpConfig { RegExpConfig { minimum_substring_length: q, ..c } }\n'
    s += 'pub open spec fn set_color(c: RegExpConfig) -> RegExpConfig { RegExpConfig { is_output_colorized: true, ..c } }\n'
    return s

def config_lemmas():
    """(label, text) per lemma: every two setters commute, boolean setters are idempotent, valued setters: last value wins."""
    names = [sp for sp, _ in SETTERS.values()]
    out = []
    for i, a in enumerate(names):
        lem = 'pub proof fn commute_%s(c: RegExpConfig, sp: bool, q: u32)\n    ensures\n' % a
        lem += '        %s(%s(c)) == %s(c),\n' % (a, a, a)
        for bb in names[i + 1:]:
            lem += '        %s(%s(c)) == %s(%s(c)),\n' % (a, bb, bb, a)
        lem += '        %s(set_escape(c, sp)) == set_escape(%s(c), sp), %s(set_min_rep(c, q)) == set_min_rep(%s(c), q), %s(set_min_len(c, q)) == set_min_len(%s(c), q),\n{}' % (a, a, a, a, a, a)
        out.append(('builder.commute_%s' % a, lem))
    out.append(('builder.last_value_wins', 'pub proof fn last_value_wins(c: RegExpConfig, sp: bool, sp0: bool, q: u32, q0: u32)\n    ensures set_escape(set_escape(c, sp0), sp) == set_escape(c, sp), set_min_rep(set_min_rep(c, q0), q) == set_min_rep(c, q), set_min_len(set_min_len(c, q0), q) == set_min_len(c, q),\n        set_min_rep(set_min_len(c, q0), q) == set_min_len(set_min_rep(c, q), q0), set_escape(set_min_rep(c, q), sp) == set_min_rep(set_escape(c, sp), q), set_escape(set_min_len(c, q), sp) == set_min_len(set_escape(c, sp), q),\n{}'))
    return out

def emit_types_and_spec(b, lemmas=True):
    b.type_item('config.rs', r'^pub struct RegExpConfig \{')
    b.type_item('builder.rs', r'^pub struct RegExpBuilder \{')
    b.emit('#[verifier::external_body] pub fn vx_unreachable_panic() -> ! requires false { unimplemented!() }')
    b.emit(config_spec(config_fields(b)))
    if lemmas:
        for label, text in config_lemmas(): b.lemma(label, ['C10'], text)

def emit_setters(b):
    IM = r'^impl RegExpBuilder \{'
    for m, (sp, fs) in SETTERS.items():
        b.verified_fn('builder.rs', m, within=IM, props=['C07'], fname='RegExpBuilder::' + m, clauses=[
            Clause(m + '.effect', 'r.config == %s(old(self).config)' % sp, ['C10', 'C12', 'C17']),
            Clause(m + '.frame', 'r.test_cases == old(self).test_cases && *final(r) == *final(self)', ['C10', 'C12'])])
    b.verified_fn('builder.rs', 'with_escaping_of_non_ascii_chars', within=IM, props=['C07'], fname='RegExpBuilder::with_escaping_of_non_ascii_chars', clauses=[
        Clause('with_escaping_of_non_ascii_chars.effect', 'r.config == set_escape(old(self).config, use_surrogate_pairs)', ['C10', 'C12', 'C17', 'C11']),
        Clause('with_escaping_of_non_ascii_chars.frame', 'r.test_cases == old(self).test_cases && *final(r) == *final(self)', ['C10', 'C12'])])
    for m, sp, p in [('with_minimum_repetitions', 'set_min_rep', 'quantity'), ('with_minimum_substring_length', 'set_min_len', 'length')]:
        b.verified_fn('builder.rs', m, within=IM, props=['C07'], fname='RegExpBuilder::' + m, requires=['%s > 0' % p], clauses=[
            Clause(m + '.effect', 'r.config == %s(old(self).config, %s)' % (sp, p), ['C10', 'C12', 'C17', 'C13']),
            Clause(m + '.frame', 'r.test_cases == old(self).test_cases && *final(r) == *final(self)', ['C10', 'C12'])])

def build(repo, spec_dir, canary=False):
    b = Builder(NAME, repo, canary)
    b.emit('use vstd::prelude::*;\nverus! {')
    emit_types_and_spec(b)
    b.emit('impl RegExpBuilder {')
    emit_setters(b)
    b.emit('}')
    # RegExpBuilder::build: the pipeline gets the builder's test cases and its settings, as they are, and its text is returned (C10: the result is a function of the
    # accumulated state; C04/C01: nothing is dropped or rewritten on the way in)
    b.emit('''pub struct RegExp { pub x: u8 }
pub uninterp spec fn pipeline_text(test_cases: Seq<String>, config: RegExpConfig) -> Seq<char>;       // what RegExp::from(..).to_string() prints (units regexp, render, format, ..)
pub uninterp spec fn rx_text(r: RegExp) -> Seq<char>;
impl RegExp {
    #[verifier::external_body] pub fn from(test_cases: &mut Vec<String>, config: &RegExpConfig) -> (r: RegExp) ensures rx_text(r) == pipeline_text(old(test_cases)@, *config) { unimplemented!() }
}
#[verifier::external_body] pub fn vx_regexp_text(r: RegExp) -> (s: String) ensures s@ == rx_text(r) { unimplemented!() }
impl RegExpBuilder {''')
    b.verified_fn('builder.rs', 'build', within=r'^impl RegExpBuilder \{', props=['C07'], fname='RegExpBuilder::build',
                  extra_rules=[('R16', r'RegExp::from\(([^()]*(?:\([^()]*\)[^()]*)*)\)\.to_string\(\)', r'vx_regexp_text(RegExp::from(\1))', 'to_string() of the pipeline result: its Display text')],
                  clauses=[Clause('build.hands_test_cases_and_settings_over_as_they_are', 'r@ == pipeline_text(old(self).test_cases@, old(self).config)', ['C10', 'C04', 'C01']),
                           Clause('build.keeps_the_settings', 'final(self).config == old(self).config', ['C10'])])
    b.emit('}')
    # the documented panic of RegExpBuilder::from: reachable exactly for an empty list (first statement of the function, R7 + R6)
    f, _, _ = X.fn(b.src('builder.rs'), 'from', within=r'^impl RegExpBuilder \{')
    from vx import rustlex as L
    bo = L.body_open(f, 0)
    st = L.split_stmts(f[bo + 1:L.match_close(f, bo)])
    first = f[bo + 1:][st[0][0]:st[0][1]]
    b.slice_fn('from_guard', 'pub fn from_guard<T>(test_cases: &[T])', '    ' + first, 'builder.rs::RegExpBuilder::from first statement (the emptiness check)', props=['C07'],
               requires=['test_cases@.len() > 0'], clauses=[])
    b.slice_fn('from_guard_panics_on_empty', 'pub fn from_guard_panics_on_empty<T>(test_cases: &[T]) -> (reached_end: bool)', '    ' + first + '\n    true', 'builder.rs::RegExpBuilder::from first statement: an empty list does not get past it', props=['C07'],
               clauses=[Clause('from.empty_list_panics', 'test_cases@.len() > 0', ['C07'])], extra_rules=[('R6b', r'vx_unreachable_panic\(\)', 'vx_documented_panic()', 'the documented panic: a diverging call')])
    b.emit('#[verifier::external_body] pub fn vx_documented_panic() -> ! { unimplemented!() }')
    # RegExpBuilder::from_file, the arm that has read the file: it must behave like `from` on the file's lines (C12), i.e. a file without test cases is the
    # documented panic of `from`, not a builder with an empty list
    ff, _, _ = X.fn(b.src('builder.rs'), 'from_file', within=r'^impl RegExpBuilder \{')
    k = ff.find('Ok(file_content) => ')
    if k < 0: raise X.LostAnchor('builder.rs::from_file Ok arm')
    j = k + len('Ok(file_content) => ')
    if ff[j:].startswith('Self {') or ff[j:].startswith('{'):
        bo = ff.index('{', j); arm = ff[j:L.match_close(ff, bo) + 1]
    else: raise X.LostAnchor('builder.rs::from_file Ok arm: neither a block nor a struct expression')
    fields = [f for f, _ in config_fields(b)]
    b.emit('pub open spec fn default_config() -> RegExpConfig { RegExpConfig { %s } }' % ', '.join('%s: %s' % (f, {'minimum_repetitions': '1', 'minimum_substring_length': '1'}.get(f, 'false')) for f in fields))
    b.emit('impl RegExpConfig {')
    b.verified_fn('config.rs', 'new', within=r'^impl RegExpConfig \{', props=['C07'], fname='RegExpConfig::new', clauses=[Clause('config.new_is_default', 'r == default_config()', ['C12', 'C10'])])
    b.emit('}')
    # the closure that turns a line into a test case: the line as it is (nothing trimmed, nothing dropped)
    k2 = ff.find('.lines()')
    if k2 < 0: raise X.LostAnchor('builder.rs::from_file: file_content.lines()')
    ce, _, _ = X.closure_expr(ff[k2:], '.map(|it| ')
    b.emit('''pub uninterp spec fn trimmed(s: Seq<char>, mode: int) -> Seq<char>;       // str::trim / trim_start / trim_end (not the identity)
pub assume_specification [str::trim] (s: &str) -> (r: &str) ensures r@ == trimmed(s@, 0);
pub assume_specification [str::trim_start] (s: &str) -> (r: &str) ensures r@ == trimmed(s@, 1);
pub assume_specification [str::trim_end] (s: &str) -> (r: &str) ensures r@ == trimmed(s@, 2);
#[verifier::external_body] pub fn vx_str_to_string(s: &str) -> (r: String) ensures r@ == s@ { unimplemented!() }''')
    b.slice_fn('from_file_line', 'pub fn from_file_line(it: &str) -> (r: String)', '    ' + ce, 'builder.rs::RegExpBuilder::from_file closure |it| of `.lines().map(..)`', props=['C07', 'C12'],
               extra_rules=[('R4', r'\b(it(?:\.\w+\(\))*)\.to_string\(\)', r'vx_str_to_string(\1)', '&str -> String copy')],
               clauses=[Clause('from_file.line_is_kept_as_it_is', 'r@ == it@', ['C12'])])
    def ff_rules(t, log, w):
        t2 = re.sub(r'file_content\s*\.lines\(\)\s*\.map\(\|it\| [^\n]*?\)\s*\.collect_vec\(\)', 'file_lines', t)
        if t2 == t: raise X.LostAnchor('builder.rs::from_file: file_content.lines().map(|it| ..).collect_vec()')
        log.add('R30', w, 'file_content.lines().map(|it| ..).collect_vec()', 'file_lines: the closure applied to every line of the file (closure body: slice from_file_line), an arbitrary Vec<String> here (parameter of the slice)')
        t3 = re.sub(r'\bSelf \{', 'RegExpBuilder {', t2)
        if t3 != t2: log.add('R7', w, 'Self { .. }', 'RegExpBuilder { .. } (the slice is a free function)')
        return t3
    b.slice_fn('from_file_ok', 'pub fn from_file_ok(file_lines: Vec<String>) -> (r: RegExpBuilder)', '    ' + arm, 'builder.rs::RegExpBuilder::from_file arm `Ok(file_content) => ..`', props=['C07', 'C12'], pre=ff_rules,
               extra_rules=[('R6b', r'vx_unreachable_panic\(\)', 'vx_documented_panic()', 'the documented panic: a diverging call')],
               clauses=[Clause('from_file.like_from_on_the_lines', 'r.test_cases@ == file_lines@ && r.config == default_config()', ['C12']),
                        Clause('from_file.no_test_cases_is_the_documented_panic', 'file_lines@.len() > 0', ['C12', 'C07'])])
    # the documented panics carry their documented messages (C07): the constant named in each panic! is read from the source and compared, as a string, with the
    # constant the documentation of that function speaks about
    bsrc = b.src('builder.rs')
    consts = {}
    for c in ['MISSING_TEST_CASES_MESSAGE', 'MINIMUM_REPETITIONS_MESSAGE', 'MINIMUM_SUBSTRING_LENGTH_MESSAGE']:
        mm = re.search(r'pub\(crate\) const ' + c + r': &str =\s*("(?:[^"\\]|\\.)*");', bsrc)
        if not mm: raise X.LostAnchor('builder.rs::' + c)
        consts[c] = mm.group(1)
        b.emit("pub const %s: &'static str = %s;" % (c, mm.group(1)))
    for fn_name, expected in [('from', 'MISSING_TEST_CASES_MESSAGE'), ('from_file', 'MISSING_TEST_CASES_MESSAGE'), ('with_minimum_repetitions', 'MINIMUM_REPETITIONS_MESSAGE'), ('with_minimum_substring_length', 'MINIMUM_SUBSTRING_LENGTH_MESSAGE')]:
        ft, _, _ = X.fn(bsrc, fn_name, within=r'^impl RegExpBuilder \{')
        named = re.findall(r'panic!\("\{\}", (\w+)\)', ft)
        named = [n for n in named if n in consts]
        if len(named) == 0:        # no documented panic in this function any more: nothing to compare; the clauses about WHEN it panics decide (and the label goes missing from the registry)
            b.log.add('R7', 'builder.rs::' + fn_name, 'no panic!("{}", <MESSAGE CONSTANT>)', 'lemma about the message skipped')
            continue
        if len(named) != 1: raise X.LostAnchor('builder.rs::%s: at most one panic!("{}", <MESSAGE CONSTANT>) expected, found %s' % (fn_name, named))
        b.log.add('R7', 'builder.rs::' + fn_name, 'panic!("{}", %s)' % named[0], 'lemma: that constant is the documented message %s' % expected)
        b.lemma('builder.documented_panic_message@%s' % fn_name, ['C07', 'C12'] if fn_name == 'from_file' else ['C07'],
                'pub proof fn lemma_panic_message_%s()\n    ensures %s@ == %s@\n{\n    reveal_strlit(%s); reveal_strlit(%s);\n}' % (fn_name, named[0], expected, consts[named[0]], consts[expected]))
    b.emit('} // verus!\nfn main() {}')
    b.trusted += ['panic! is modelled as a call with `requires false` (R6): proves the documented panic unreachable when the argument is positive']
    return b
