"""Slice `verbose_rewrite` (unit render): the String::replace calls at the end of Display for RegExp equal ONE per-character map (C06, C01).

The proof script is GENERATED from what is found in the source (patterns, replacement texts, order, the whitespace loop), so a harmless
reordering of the calls still verifies; the specification (`vmap`, `other_ws`, `ws_escape` in spec/replace_model.rs) is fixed and comes
from the property.  Shapes understood (anything else is a LostAnchor => UNDECIDED):
    regexp = regexp.replace(P, "T")[.replace(P, "T")]*;                      a chain of single replacements (P: char or [char; N])
    for X in [list] { regexp = regexp.replace(X, &format!("lit{:04x}", X as u32)); }   one replacement per list element
either at top level or inside `if self.config.is_verbose_mode_enabled { .. }`."""
import re
from vx.assemble import Clause
from vx import extract as X, rustlex as L, dialect as D

CH = r"'(?:\\u\{[0-9a-fA-F]+\}|\\.|[^'\\])'"

def char_cp(lit):
    t = lit[1:-1]
    if t.startswith('\\u{'): return int(t[3:-1], 16)
    esc = {'\\t': 9, '\\n': 10, '\\r': 13, "\\'": 39, '\\\\': 92, '\\0': 0}
    return esc[t] if t in esc else ord(t)

def cp_lit(cp):
    if cp == 92: return "'\\\\'"
    if cp == 39: return "'\\''"
    if 32 <= cp < 127: return "'%s'" % chr(cp)
    return "'\\u{%x}'" % cp

def str_cps(lit):
    body, out, i = lit[1:-1], [], 0
    while i < len(body):
        if body[i] == '\\':
            if body.startswith('\\u{', i):
                j = body.index('}', i); out.append(int(body[i + 3:j], 16)); i = j + 1; continue
            out.append({'n': 10, 'r': 13, 't': 9, '\\': 92, '"': 34, "'": 39, '0': 0}[body[i + 1]]); i += 2; continue
        out.append(ord(body[i])); i += 1
    return out

WS_SPEC = [0x85, 0xa0, 0x1680] + list(range(0x2000, 0x200b)) + [0x2028, 0x2029, 0x202f, 0x205f, 0x3000]

def emit(b, disp, fmt_pre):
    rng, _, _ = X.stmt_range(disp, 'regexp = regexp', 'write!(')
    where = 'regexp.rs::Display for RegExp statements `regexp = regexp.replace(..)..` up to the final write!'
    text = re.sub(r'\.replace\(', '.vx_replace(', rng.rstrip())
    b.log.add('R19', where, 'String::replace(char | [char; N], &str)', 'vx_replace of the replace model (every matched character is replaced)')
    hoisted = []
    def hoist(lit):
        name = 'vx_arr%d' % len(hoisted); hoisted.append((name, lit)); return name
    # ---- parse the statements into stages, rewriting the text on the way
    stages, out_lines = [], []
    def parse_chain(st, verbose):
        for m in re.finditer(r'\.vx_replace\(', st):
            pc = L.match_close(st, m.end() - 1)
            raw = re.sub(r'//[^\n]*', '', st[m.end():pc])
            args = [a.strip() for a in D._split_args(raw)]
            if len(args) != 2 or not re.fullmatch(r'"(?:[^"\\]|\\.)*"', args[1]): raise X.LostAnchor(where + ': replace call outside the model: ' + raw[:60])
            pat = args[0]
            if re.fullmatch(CH, pat): stages.append({'kind': 'char', 'val': char_cp(pat), 'pat': pat, 'to': args[1], 'to_cps': str_cps(args[1]), 'verbose': verbose})
            elif pat.startswith('['):
                name = hoist(pat)
                stages.append({'kind': 'set', 'val': [char_cp(x) for x in re.findall(CH, pat)], 'pat': name, 'to': args[1], 'to_cps': str_cps(args[1]), 'verbose': verbose})
            else: raise X.LostAnchor(where + ': pattern outside the model: ' + pat[:40])
    def rewrite_chain(st):
        # replace array-literal patterns by their hoisted names (same order as parse_chain)
        k = [len(hoisted)]
        return st
    def handle(st, verbose, indent):
        st = st.strip()
        if st.startswith('regexp = regexp'):
            before = len(hoisted)
            parse_chain(st, verbose)
            # substitute hoisted arrays in the statement text
            txt = st
            for name, lit in hoisted[before:]:
                txt = txt.replace(lit, name, 1)
            out_lines.append(indent + txt)
            return
        m = re.match(r'for (\w+) in \[', st)
        if m:
            var = m.group(1)
            bo = st.index('['); bc = L.match_close(st, bo)
            name = hoist(st[bo:bc + 1])
            body_o = L.body_open(st, bc + 1); body = st[body_o + 1:L.match_close(st, body_o)].strip()
            mm = re.fullmatch(r'regexp = regexp\.vx_replace\(%s, &format!\(("(?:[^"\\]|\\.)*"), %s as u32\)\);' % (var, var), body)
            m2 = re.fullmatch(r'regexp = regexp\.vx_replace\(%s, ("(?:[^"\\{}]|\\.)*")\);' % var, body)
            if not mm and not m2: raise X.LostAnchor(where + ': loop body outside the model: ' + body[:80])
            hexed = bool(mm)
            if hexed:
                fmt = mm.group(1)
                parts = re.fullmatch(r'"((?:[^"\\{}]|\\.)*)\{:04x\}"', fmt)
                if not parts: raise X.LostAnchor(where + ': format string outside the model: ' + fmt)
                lit = '"%s"' % parts.group(1)
            else:
                fmt = lit = m2.group(1)
            idx = len(stages)
            stages.append({'kind': 'loop', 'val': [char_cp(x) for x in re.findall(CH, st[bo:bc + 1])], 'pat': name, 'var': var, 'lit': lit, 'lit_cps': str_cps(lit), 'hexed': hexed, 'verbose': verbose})
            b.log.add('R22', where, 'for %s in [..] { .. }' % var, 'for vx_i in 0..%s.len() { let %s = %s[vx_i]; .. } (array hoisted, R23)' % (name, var, name))
            b.log.add('R16', where, 'format!(%s, %s as u32)' % (fmt, var), 'vx_concat2(vx_lit(%s), vx_hex4(%s as u32))' % (lit, var))
            out_lines.append(indent + 'let ghost vs_loop%d = regexp@; proof { lemma_set_map_zero(vs_loop%d, %s_list(), |c: char| vtext%d(c)); assert(%s@ =~= %s_list()); }' % (idx, idx, name, idx, name, name))
            out_lines.append(indent + 'for vx_i in vit%d: 0..%s.len()' % (idx, name))
            out_lines.append(indent + '    invariant %s@ == %s_list(), regexp@ == fm(vs_loop%d, set_map(%s_list(), vit%d.index@, |c: char| vtext%d(c))), /*#verbose.loop_replaces_listed_characters@loop#*/ 0 <= vit%d.index@ <= %s_list().len(),' % (name, name, idx, name, idx, idx, idx, name))
            out_lines.append(indent + '{')
            out_lines.append(indent + '    let %s = %s[vx_i]; let ghost vr0 = regexp@;' % (var, name))
            out_lines.append(indent + ('    regexp = regexp.vx_replace(%s, &vx_concat2(vx_lit(%s), vx_hex4(%s as u32)));' % (var, lit, var) if hexed else '    regexp = regexp.vx_replace(%s, %s);' % (var, lit)))
            out_lines.append(indent + '    proof { /*@verbose.rewriting_is_charwise@*/')
            out_lines.append(indent + '        reveal_strlit(%s); lemma_vtexts_avoid%d(); /*@verbose.rewriting_is_charwise@*/' % (lit, idx))
            out_lines.append(indent + '        let t = |c: char| vtext%d(c); let k = vit%d.index@; /*@verbose.rewriting_is_charwise@*/' % (idx, idx))
            out_lines.append(indent + ('        assert(%s@ + hex4(%s as u32) =~= vtext%d(%s)); /*@verbose.rewriting_is_charwise@*/' % (lit, var, idx, var) if hexed else '        assert(%s@ =~= vtext%d(%s)); /*@verbose.rewriting_is_charwise@*/' % (lit, idx, var)))
            out_lines.append(indent + '        assert(subst_fn(%s, vtext%d(%s)) =~= (|c: char| if c == %s_list()[k] { t(%s_list()[k]) } else { seq![c] })); /*@verbose.rewriting_is_charwise@*/' % (var, idx, var, name, name))
            out_lines.append(indent + '        lemma_set_step(vs_loop%d, %s_list(), k, t); /*@verbose.rewriting_is_charwise@*/' % (idx, name))
            out_lines.append(indent + '    } /*@verbose.rewriting_is_charwise@*/')
            out_lines.append(indent + '}')
            return
        raise X.LostAnchor(where + ': statement outside the model: ' + st[:60])
    top = [text[a:z] for a, z in L.split_stmts(text)]
    seen_if = False
    for st in top:
        s0 = st.strip()
        if s0.startswith('if self.config.is_verbose_mode_enabled'):
            if seen_if: raise X.LostAnchor(where + ': two verbose blocks')
            seen_if = True
            bo = L.body_open(s0, 0); inner = s0[bo + 1:L.match_close(s0, bo)]
            out_lines.append('        let ghost s_mid = regexp@;')
            out_lines.append('        if self.config.is_verbose_mode_enabled {')
            for a, z in L.split_stmts(inner): handle(inner[a:z], True, '            ')
            out_lines.append('        }')
        else:
            if seen_if: raise X.LostAnchor(where + ': unconditional rewriting after the verbose block')
            handle(s0, False, '        ')
    if not seen_if: raise X.LostAnchor(where + ': verbose block')
    if hoisted: b.log.add('R23', where, '%d array literal(s)' % len(hoisted), 'let vx_arrK = [..]; hoisted in front of the statements (pure literals)')
    n0, N = sum(1 for s in stages if not s['verbose']), len(stages)
    # ---- generated spec: lists, per-stage substitution, stage functions
    g = []
    for s in stages:
        if s['kind'] in ('set', 'loop'): g.append('pub open spec fn %s_list() -> Seq<char> { seq![%s] }' % (s['pat'], ', '.join(cp_lit(c) for c in s['val'])))
    for i, s in enumerate(stages):
        if s['kind'] == 'loop': g.append('pub open spec fn vtext%d(c: char) -> Seq<char> { seq![%s]%s }' % (i, ', '.join(cp_lit(c) for c in s['lit_cps']), ' + hex4(c as u32)' if s['hexed'] else ''))
    def sub_body(i, s):
        if s['kind'] == 'char': return 'if x == %s { %s@ } else { seq![x] }' % (cp_lit(s['val']), s['to'])
        if s['kind'] == 'set': return 'if %s_list().contains(x) { %s@ } else { seq![x] }' % (s['pat'], s['to'])
        return 'if %s_list().contains(x) { vtext%d(x) } else { seq![x] }' % (s['pat'], i)
    for i, s in enumerate(stages):
        g.append('pub open spec fn vsub%d(x: char) -> Seq<char> { %s }' % (i + 1, sub_body(i, s)))
        g.append('pub open spec fn vg%d(c: char) -> Seq<char> { fm(%s, |x: char| vsub%d(x)) }' % (i + 1, 'seq![c]' if i == 0 else 'vg%d(c)' % i, i + 1))
    b.emit('\n'.join(g))
    setlike = [s for s in stages if s['kind'] in ('set', 'loop')]
    for s in setlike:
        idx = {}
        for j, c in enumerate(s['val']): idx.setdefault(c, j)
        cases = ' else '.join('if x == %s { assert(%s_list()[%d] == x); }' % (cp_lit(c), s['pat'], idx[c]) for c in WS_SPEC if c in idx)
        b.lemma('verbose.whitespace_list_is_unicode_white_space', ['C06'], '''pub proof fn lemma_%s_list()
    ensures forall|x: char| %s_list().contains(x) <==> other_ws(x)
{
    assert forall|x: char| %s_list().contains(x) <==> other_ws(x) by {
        if %s_list().contains(x) { let i = choose|i: int| 0 <= i < %s_list().len() && %s_list()[i] == x; assert(other_ws(%s_list()[i])); }
        if other_ws(x) { %s }
    }
}''' % ((s['pat'],) * 7 + (cases or 'assert(false);',)))
    for i, s in enumerate(stages):
        if s['kind'] != 'loop': continue
        L0 = len(s['lit_cps'])
        b.lemma('verbose.escape_texts_contain_no_whitespace', ['C06'], '''pub proof fn lemma_vtexts_avoid%d()
    ensures texts_avoid(%s_list(), |c: char| vtext%d(c))
{
    lemma_%s_list();
    assert forall|c: char, i: int| 0 <= i < vtext%d(c).len() implies !%s_list().contains(#[trigger] vtext%d(c)[i]) by {
        if i >= %d { %s }
        assert(!other_ws(vtext%d(c)[i]));
    }
}''' % (i, s['pat'], i, s['pat'], i, s['pat'], i, L0, ('axiom_hex4_digits(c as u32, i - %d); assert(vtext%d(c)[i] == hex4(c as u32)[i - %d]);' % (L0, i, L0)) if s['hexed'] else '', i))
    # ---- symbolic simulation of the stages per character class; tokens: ('lit', cp) | ('C',) | ('H',) = hex4(c as u32)
    def simulate(cls, upto):
        toks, outs = [('C',)], []
        for s in stages[:upto]:
            new = []
            for t in toks:
                if t[0] == 'H': new.append(t); continue
                if t[0] == 'C':
                    if cls[0] == 'char': hit = (s['kind'] == 'char' and s['val'] == cls[1]) or (s['kind'] != 'char' and cls[1] in s['val'])
                    elif cls[0] == 'ws': hit = s['kind'] != 'char'          # every set-like pattern is proved equal to other_ws
                    else: hit = False
                else:
                    hit = (s['kind'] == 'char' and s['val'] == t[1]) or (s['kind'] != 'char' and t[1] in s['val'])
                if not hit: new.append(t)
                elif s['kind'] == 'loop': new += [('lit', c) for c in s['lit_cps']] + (([('H',)] if t[0] == 'C' else [('lit', ord(x)) for x in '%04x' % t[1]]) if s['hexed'] else [])
                else: new += [('lit', c) for c in s['to_cps']]
            toks = new; outs.append(list(toks))
        return outs
    def render(toks):
        pieces, cur = [], []
        for t in toks:
            if t[0] == 'H':
                if cur: pieces.append('seq![%s]' % ', '.join(cur)); cur = []
                pieces.append('hex4(c as u32)')
            else: cur.append('c' if t[0] == 'C' else cp_lit(t[1]))
        if cur: pieces.append('seq![%s]' % ', '.join(cur))
        return ' + '.join(pieces) if pieces else 'Seq::<char>::empty()'
    single = []
    for s in stages:
        if s['kind'] == 'char' and s['val'] not in single: single.append(s['val'])
    lits = sorted(set([s['to'] for s in stages if 'to' in s] + ['"\\\\v"', '"\\\\f"', '"\\\\#"', '"\\\\ "']))
    reveal = ' '.join('reveal_strlit(%s);' % l for l in lits)
    guards = ' '.join('lemma_%s_list();' % s['pat'] for s in setlike)
    def pointwise(name, upto, verbose):
        if upto == 0: return 'pub proof fn %s(c: char) ensures seq![c] == vmap(%s)(c) { }' % (name, verbose)
        classes = [('char', x) for x in single] + ([('ws', None)] if any(s['kind'] != 'char' for s in stages[:upto]) else []) + [('other', None)]
        body = []
        for cls in classes:
            cond = ('c == %s' % cp_lit(cls[1])) if cls[0] == 'char' else ('other_ws(c)' if cls[0] == 'ws' else None)
            outs = simulate(cls, upto)
            steps_txt = []
            for k, o in enumerate(outs):
                if any(t[0] == 'H' for t in (outs[k - 1] if k else [])):
                    # a stage applied to a text that contains the hex digits: split at the digits and use that they match nothing
                    prev = outs[k - 1]; h = [j for j, t in enumerate(prev) if t[0] == 'H'][0]
                    pre_t, post_t = prev[:h], prev[h + 1:]
                    f = '|x: char| vsub%d(x)' % (k + 1)
                    steps_txt.append('assert forall|i: int| 0 <= i < hex4(c as u32).len() implies (%s)(#[trigger] hex4(c as u32)[i]) == seq![hex4(c as u32)[i]] by { axiom_hex4_digits(c as u32, i); }' % f)
                    steps_txt.append('lemma_fm_nomatch(hex4(c as u32), %s);' % f)
                    steps_txt.append('lemma_fm_append(%s, hex4(c as u32)%s, %s);' % (render(pre_t), (' + ' + render(post_t)) if post_t else '', f))
                    if post_t: steps_txt.append('lemma_fm_append(hex4(c as u32), %s, %s);' % (render(post_t), f))
                steps_txt.append('assert(vg%d(c) =~= %s);' % (k + 1, render(o)))
            body.append(('if %s { %s }' % (cond, ' '.join(steps_txt))) if cond else ('{ %s }' % ' '.join(steps_txt)))
        used = sorted(set(c for s in stages for c in (s.get('to_cps') or s.get('lit_cps'))))
        notws = ' && '.join('!other_ws(%s)' % cp_lit(c) for c in used) or 'true'
        return '''pub proof fn %s(c: char)
    ensures vg%d(c) == vmap(%s)(c)
{
    %s
    reveal_with_fuel(fm, 8);
    %s
    assert(%s);
    %s
    assert(vg%d(c) =~= vmap(%s)(c));
}''' % (name, upto, verbose, reveal, guards, notws, ' else '.join(body), upto, verbose)
    b.lemma('verbose.chain_pointwise_nonverbose', ['C06', 'C01'], pointwise('lemma_vpoint_plain', n0, 'false'))
    b.lemma('verbose.chain_pointwise_verbose', ['C06', 'C01'], pointwise('lemma_vpoint_verbose', N, 'true'))
    # ---- the final proof block: compose the stages with the monad laws of the flat map
    def compose(lo, hi, prevh):
        out = []
        for i in range(lo, hi):
            s = stages[i]
            if s['kind'] == 'loop':
                out.append('let vf%d = set_map(%s_list(), %s_list().len() as int, |c: char| vtext%d(c)); assert(%s_list().take(%s_list().len() as int) =~= %s_list());' % ((i + 1, s['pat'], s['pat'], i) + (s['pat'],) * 3))
            else:
                out.append('let vf%d = subst_fn(%s, %s@);' % (i + 1, s['pat'], s['to']))
                if s['kind'] == 'set': out.append('assert(%s@ =~= %s_list());' % (s['pat'], s['pat']))
            out.append('let vh%d = |c: char| vg%d(c);' % (i + 1, i + 1))
            out.append('assert forall|c: char| #[trigger] vh%d(c) == fm(%s(c), vf%d) by { assert(vf%d =~= (|x: char| vsub%d(x))); }' % (i + 1, prevh, i + 1, i + 1, i + 1))
            out.append('lemma_fm_compose(s0, %s, vf%d, vh%d);' % (prevh, i + 1, i + 1))
            prevh = 'vh%d' % (i + 1)
        return out, prevh
    pa, h_mid = compose(0, n0, 'vh0')
    pb, h_end = compose(n0, N, h_mid)
    proof = ['        proof {', '            ' + reveal, '            let s0 = regexp0@; let vb = self.config.is_verbose_mode_enabled;', '            let vh0 = |c: char| seq![c]; lemma_fm_id(s0); assert(fm(s0, vh0) == s0);']
    proof += ['            ' + x for x in pa]
    proof += ['            assert(s_mid == fm(s0, %s));' % h_mid,
              '            if !vb {', '                assert forall|c: char| #[trigger] %s(c) == vmap(vb)(c) by { lemma_vpoint_plain(c); }' % h_mid, '                lemma_fm_ext(s0, %s, vmap(vb));' % h_mid, '            } else {']
    proof += ['                ' + x for x in pb]
    proof += ['                assert(regexp@ == fm(s0, %s));' % h_end, '                assert forall|c: char| #[trigger] %s(c) == vmap(vb)(c) by { lemma_vpoint_verbose(c); }' % h_end, '                lemma_fm_ext(s0, %s, vmap(vb));' % h_end, '            }',
              '            if vb && s0.len() == 1 && other_ws(s0[0]) { reveal_with_fuel(fm, 3); reveal_strlit("\\\\s"); reveal_strlit("\\\\d"); reveal_strlit("\\\\w"); reveal_strlit("\\\\S"); reveal_strlit("\\\\D"); reveal_strlit("\\\\W"); assert(regexp@ =~= ws_escape(s0[0])); assert(regexp@[1] == \'u\'); }',
              '        }']
    LAB = ('verbose.rewriting_is_charwise', ['C06', 'C01'])
    proof = '\n'.join(ln + ' /*@%s@*/' % LAB[0] for ln in proof)
    b._block_labels = getattr(b, '_block_labels', {}); b._block_labels[LAB[0]] = LAB[1]
    b._inv_labels = getattr(b, '_inv_labels', {})
    prologue = '        let mut regexp = regexp0;\n' + ''.join('        let %s = %s;\n' % (n, lit) for n, lit in hoisted)
    body = '\n'.join(out_lines)
    b.emit("impl<'a> RegExp<'a> {")
    b.slice_fn('verbose_rewrite', 'pub fn verbose_rewrite(&self, regexp0: String) -> (regexp: String)', body, where, props=['C07'], prologue=prologue.rstrip('\n'),
               epilogue=proof + '\n        regexp', clauses=[
        Clause('verbose.rewriting_is_charwise', 'regexp@ == fm(regexp0@, vmap(self.config.is_verbose_mode_enabled))', ['C06', 'C01']),
        # the property: whitespace is written so that the engine neither ignores nor WIDENS it -- a class shorthand would widen it
        Clause('verbose.whitespace_kept_exact', 'self.config.is_verbose_mode_enabled && regexp0@.len() == 1 && other_ws(regexp0@[0]) ==> !is_class_shorthand(regexp@)', ['C06'])])
    b.emit('}')
    b.trusted.append('replace model: String::replace with a char or char-array pattern replaces every matched character (spec/replace_model.rs); format!("{:04x}", n) renders lower-case hex digits (axiom_hex4_digits); R23 hoists array literals into lets')
