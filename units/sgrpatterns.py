r"""Obligations of unit `indent` about the colour-stripping patterns of regexp.rs.

Every pattern in regexp.rs that strips colour codes -- Regex::new("\u{1b}\\[(?:..|..)m") as written in the Rust source -- must match every
colour code component.rs writes (the first argument of each Self::color_code(..) call, and the reset code 0).  Patterns and codes are READ
from the literals of the source; one lemma per pattern, discharged by Verus (the position of the ';' in a code is handed over as a hint).
"""
import re
from vx import extract as X

SGR_SPEC = r'''
pub open spec fn is_digit(c: char) -> bool { '0' <= c && c <= '9' }
pub open spec fn all_digits(s: Seq<char>) -> bool { s.len() > 0 && forall|i: int| 0 <= i < s.len() ==> is_digit(#[trigger] s[i]) }
pub open spec fn one_digit(s: Seq<char>) -> bool { s.len() == 1 && is_digit(s[0]) }
'''

# the Rust source text of such a pattern:  Regex::new("\u{1b}\\[(?:ALTS)m")
PATTERN = re.compile(r'Regex::new\("\\u\{1b\}\\\\\[\(\?:([^"]*)\)m"\)')
D_PLUS, D_ONE = r'\\d+', r'\\d'          # `\\d+` / `\\d` as they appear inside a Rust string literal

def seq_lit(text):
    return 'seq![%s]' % ', '.join("'%s'" % c for c in text)

def emit(b, rx, indent_props):
    comp = b.src('component.rs')
    codes = re.findall(r'Self::color_code\("([^"]*)"', comp)
    if not codes or 'u{1b}[0m' not in comp: raise X.LostAnchor('component.rs: color_code calls / reset sequence')
    codes = list(dict.fromkeys(codes + ['0']))          # "0": the reset sequence written by color_code itself
    if any(not re.fullmatch(r'[0-9;]+', c) for c in codes): raise X.LostAnchor('component.rs: a colour code is not digits and semicolons')
    b.log.add('R7', 'component.rs', '%d colour-code literals' % len(codes), 'spec: the code texts ' + ', '.join(codes))
    b.emit(SGR_SPEC)
    pats = [(m.start(), m.group(1)) for m in PATTERN.finditer(rx)]
    if not pats: raise X.LostAnchor('regexp.rs: no colour-stripping pattern of the form Regex::new("\\u{1b}\\\\[(?:..)m")')
    fns = [(m.start(), m.group(1)) for m in re.finditer(r'(?m)^\s*(?:pub(?:\(crate\))? )?fn (\w+)', rx)]
    for pos, body in pats:
        owner = [n for p_, n in fns if p_ < pos][-1]
        preds = []
        for a in body.split('|'):
            parts = a.split(';')
            if len(parts) == 2 and all(x in (D_PLUS, D_ONE) for x in parts):
                l = 'all_digits' if parts[0] == D_PLUS else 'one_digit'
                r = 'all_digits' if parts[1] == D_PLUS else 'one_digit'
                preds.append("(exists|k: int| 0 < k < s.len() - 1 && %s(#[trigger] s.subrange(0, k)) && s[k] == ';' && %s(s.subrange(k + 1, s.len() as int)))" % (l, r))
            elif re.fullmatch(r'[0-9;]+', a): preds.append('s =~= %s' % seq_lit(a))
            elif a == D_PLUS: preds.append('all_digits(s)')
            elif a == D_ONE: preds.append('one_digit(s)')
            else: raise X.LostAnchor('regexp.rs::%s: alternative %r of the colour-stripping pattern is outside the shapes understood' % (owner, a))
        b.emit('// the alternatives of the pattern in %s: %s\npub open spec fn sgr_%s(s: Seq<char>) -> bool { %s }' % (owner, body, owner, ' || '.join(preds)))
        hints = []
        for c in codes:
            if ';' in c:
                k = c.index(';')
                hints.append('assert(sgr_%s("%s"@)) by { reveal_strlit("%s"); let s = "%s"@; assert(s.subrange(0, %d) =~= %s); assert(s.subrange(%d, %d) =~= %s); }'
                             % (owner, c, c, c, k, seq_lit(c[:k]), k + 1, len(c), seq_lit(c[k + 1:])))
            else:
                hints.append('assert(sgr_%s("%s"@)) by { reveal_strlit("%s"); }' % (owner, c, c))
        props = ['C07', 'C08'] if owner == 'convert_expr_to_regex' else indent_props
        b.lemma('sgr.pattern_in_%s_covers_every_colour_code' % owner, props,
                'pub proof fn lemma_sgr_%s()\n    ensures %s\n{\n    %s\n}' % (owner, ', '.join('sgr_%s("%s"@)' % (owner, c) for c in codes), '\n    '.join(hints)))
