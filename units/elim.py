"""Unit `elim`: the elimination loop of Expression::from (Brzozowski's algebraic method, stage S3) under contract."""
from vx.assemble import Builder, Clause
from vx import extract as X, dialect as D
from units import expr as E

NDARRAY = r'''
// ---- stand-in for the part of ndarray that Expression::from uses (assumed contracts on a dependency; indexing out of bounds panics) ----
pub struct Array1<T> { pub v: Vec<T> }
pub struct Array2<T> { pub v: Vec<Vec<T>> }
impl<T> Array1<T> {
    pub uninterp spec fn view(&self) -> Seq<T>;
    #[verifier::external_body] pub fn vx_at(&self, i: usize) -> (r: &T) requires i < self@.len() ensures *r == self@[i as int] { unimplemented!() }
    #[verifier::external_body] pub fn vx_set(&mut self, i: usize, x: T) requires i < old(self)@.len() ensures final(self)@ == old(self)@.update(i as int, x) { unimplemented!() }
    #[verifier::external_body] pub fn is_empty(&self) -> (r: bool) ensures r == (self@.len() == 0) { unimplemented!() }
}
impl<T> Array2<T> {
    pub uninterp spec fn view(&self) -> Seq<Seq<T>>;
    #[verifier::external_body] pub fn vx_at(&self, i: usize, j: usize) -> (r: &T) requires i < self@.len(), j < self@[i as int].len() ensures *r == self@[i as int][j as int] { unimplemented!() }
    #[verifier::external_body] pub fn vx_set(&mut self, i: usize, j: usize, x: T) requires i < old(self)@.len(), j < old(self)@[i as int].len()
        ensures final(self)@ == old(self)@.update(i as int, old(self)@[i as int].update(j as int, x)) { unimplemented!() }
}
'''

def build(repo, spec_dir, canary=False):
    b = Builder('elim', repo, canary)
    b.emit('#![feature(allocator_api)]\nuse vstd::prelude::*;\nuse vstd::std_specs::cmp::*;\nuse std::collections::BTreeSet;\nverus! {')
    b.type_item('config.rs', r'^pub struct RegExpConfig \{')
    b.type_item('quantifier.rs', r'^pub enum Quantifier \{')
    b.type_item('substring.rs', r'^pub enum Substring \{')
    b.type_item('grapheme.rs', r'^pub struct Grapheme \{')
    b.type_item('cluster.rs', r"^pub struct GraphemeCluster<'a> \{")
    b.type_item('expression.rs', r"^pub enum Expression<'a> \{")
    b.emit('pub mod spec {\nuse super::*;')
    b.emit(open(spec_dir + '/lang.rs').read())
    b.emit(open(spec_dir + '/elim.rs').read())
    b.emit('}')
    b.emit(NDARRAY)
    b.emit('mod code {\nuse super::*;\nuse super::spec::*;')
    b.emit("impl<'a> GraphemeCluster<'a> {")
    b.assumed_fn('cluster.rs', 'from', within="^impl<'a> GraphemeCluster<'a> \\{", ensures=['s@.len() == 0 ==> r.graphemes@.len() == 0'], why='unicode-segmentation; only the empty string is used here')
    b.emit("}\nimpl<'a> Expression<'a> {")
    EX = "^impl<'a> Expression<'a> \\{"
    A = lambda name, ens, why: b.assumed_fn('expression.rs', name, within=EX, ensures=ens, why=why)
    A('concatenate', [c[1] for c in E.CONCAT_CLAUSES], 'verified in unit expr against exactly this contract')
    A('union', [c[1] for c in E.UNION_CLAUSES], 'verified in unit expr against exactly this contract')
    A('new_literal', [c[1] for c in E.NEW_LITERAL_CLAUSES], 'verified in unit expr against exactly this contract')
    A('repeat_zero_or_more_times', [], 'only reached for a cyclic automaton (dead for the acyclic precondition); `star` is uninterpreted')
    src = b.src('expression.rs')
    f, _, _ = X.fn(src, 'from', within=EX)
    a0 = f.find('for n in (0..state_count).rev() {')
    if a0 < 0: raise X.LostAnchor('expression.rs::from elimination loop')
    body = f[a0:f.rstrip().rfind('}')].rstrip()
    arrays = ['a', 'b']
    N = 'state_count as int'
    req = ['wf_dims(a@, b@, %s)' % N, 'acyclic(a@, %s)' % N, 'system_ok(a@, b@, %s)' % N]
    post = 'state_count > 0 && rl(0) != ISet::<Word>::empty() ==> lang(r) == rl(0)'
    M = '(state_count - it1.index@)'            # number of variables not yet eliminated at the head of the outer loop
    common = ['wf_dims(a@, b@, %s)' % N, 'acyclic(a@, %s)' % N]
    l1 = common + ['0 <= it1.index@ <= state_count',
                   ('elim.system@loop1', ['C02', 'C16', 'C01'], 'system_ok(a@, b@, %s)' % M),
                   ('elim.triangular@loop1', ['C02', 'C16', 'C01'], 'triangular(a@, b@, %s, %s)' % (M, N))]
    # loop 2 is inside `if a[(n, n)].is_some()`: unreachable for an acyclic matrix
    l2 = ['false']
    l3 = common + ['n < state_count', '0 <= it3.index@ <= n',
                   'forall|k: int| it3.index@ <= k < state_count ==> (#[trigger] a@[k]) == a_0[k]', 'forall|k: int| it3.index@ <= k < state_count ==> (#[trigger] b@[k]) == b_0[k]',
                   'wf_dims(a_0, b_0, %s)' % N, 'system_ok(a_0, b_0, n + 1)', 'row_ok(a_0, b_0, n as int, n as int)', 'a_0[n as int][n as int] is None',
                   ('elim.reduced@loop3', ['C02', 'C16', 'C01'], 'forall|k: int| 0 <= k < it3.index@ ==> #[trigger] row_ok(a@, b@, k, n as int)')]
    l4 = common + ['n < state_count', 'i < n', '0 <= it4.index@ <= n', 'wf_dims(a_1, b_1, %s)' % N,
                   'forall|k: int| 0 <= k < state_count && k != i ==> (#[trigger] a@[k]) == a_1[k]', 'b@ == b_2',
                   'forall|c: int| it4.index@ <= c < state_count ==> (#[trigger] a@[i as int][c]) == a_1[i as int][c]',
                   'a_1[i as int][n as int] is Some',
                   ('elim.row_updated@loop4', ['C02', 'C16', 'C01'], 'row_updated(a_1[i as int], a@[i as int], olang(a_1[i as int][n as int]), a_1[n as int], it4.index@)')]
    blocks = [(1, 'loop_start', '''            let ghost a_0 = a@; let ghost b_0 = b@;
            proof {
                assert(n == state_count - 1 - it1.index@);
                assert(row_ok(a_0, b_0, n as int, n + 1));
                assert(a_0[n as int][n as int] is None) by { if a_0[n as int][n as int] is Some { assert(rank(n as int) < rank(n as int)); } }
                lemma_drop_unused(a_0, b_0, n as int, n as int);
            }'''),
              (3, 'loop_start', '''                let ghost a_1 = a@; let ghost b_1 = b@;
                proof { assert(a_1[i as int] == a_0[i as int] && b_1[i as int] == b_0[i as int]); assert(row_ok(a_0, b_0, i as int, n + 1)); }'''),
              (4, 'loop_before', '''                    let ghost b_2 = b@;'''),
              (4, 'loop_start', '''                        let ghost a_p = a@;
                        proof { assert(a_p[i as int][j as int] == a_1[i as int][j as int]); assert(a_p[i as int][n as int] == a_1[i as int][n as int]); assert(a_p[n as int] == a_1[n as int]); }'''),
              (4, 'loop_end', '''                        proof {
                            assert(a@ == a_p.update(i as int, a_p[i as int].update(j as int, vx_tmp)));
                            assert forall|p: int, q: int| 0 <= p < state_count && 0 <= q < state_count && (#[trigger] a@[p][q]) is Some implies rank(p) < rank(q) by {
                                if p == i && q == j {
                                    assert(a@[p][q] == vx_tmp);
                                    if !(a_p[i as int][j as int] is Some) { assert(a_p[i as int][n as int] is Some && a_p[n as int][j as int] is Some); assert(rank(i as int) < rank(n as int)); assert(rank(n as int) < rank(j as int)); }
                                } else { assert(a@[p][q] == a_p[p][q]); }
                            }
                            assert forall|c: int| 0 <= c < it4.index@ + 1 implies olang(#[trigger] a@[i as int][c]) == olang(a_1[i as int][c]).union(cat(olang(a_1[i as int][n as int]), olang(a_1[n as int][c]))) by {
                                if c == j { assert(a@[i as int][c] == vx_tmp); assert(olang(vx_tmp) =~= olang(a_1[i as int][c]).union(cat(olang(a_1[i as int][n as int]), olang(a_1[n as int][c])))); } else { assert(a@[i as int][c] == a_p[i as int][c]); }
                            }
                        }'''),
              (3, 'loop_end', '''                proof {
                    if a_1[i as int][n as int] is Some {
                        assert(a_1[n as int] == a_0[n as int] && b_1[n as int] == b_0[n as int]);
                        assert(olang(b@[i as int]) =~= olang(b_0[i as int]).union(cat(olang(a_0[i as int][n as int]), olang(b_0[n as int]))));
                        lemma_reduce_row(a_0, b_0, a@, b@, i as int, n as int);
                    } else {
                        lemma_drop_unused(a_0, b_0, i as int, n as int);
                        assert(row_ok(a@, b@, i as int, n as int));
                    }
                    assert forall|k: int| 0 <= k < i implies #[trigger] row_ok(a@, b@, k, n as int) by { assert(row_ok(a_1, b_1, k, n as int)); assert(a@[k] == a_1[k]); assert(b@[k] == b_1[k]); }
                    assert forall|k: int| i < k < state_count implies (#[trigger] a@[k]) == a_0[k] by { assert(a_1[k] == a_0[k]); assert(a@[k] == a_1[k]); }
                    assert forall|k: int| i < k < state_count implies (#[trigger] b@[k]) == b_0[k] by { assert(b_1[k] == b_0[k]); assert(b@[k] == b_1[k]); }
                }'''),
              (1, 'loop_end', '''            proof {
                assert forall|k: int| n <= k < state_count implies #[trigger] row_ok(a@, b@, k, k) by {
                    if k == n { assert(row_ok(a_0, b_0, n as int, n as int)); } else { assert(row_ok(a_0, b_0, k, k)); }
                    assert(a@[k] == a_0[k]); assert(b@[k] == b_0[k]);
                }
            }''')]
    blocks.append((None, 'before_tail', '''        proof {
            if state_count > 0 {
                assert(row_ok(a@, b@, 0, 0));
                assert(row_sum(a@[0], 0).union(olang(b@[0])) =~= olang(b@[0]));
            }
        }'''))
    SUB = ('elim.substitution_step', ['C01', 'C02', 'C16'])
    blocks = [tuple(bk) + (SUB,) for bk in blocks]
    def pre(text, log, where):
        return D.ndarray_index(text, arrays, log, where)
    b._parts = dict(req=req, post=post, loops={1: l1, 2: l2, 3: l3, 4: l4}, blocks=blocks, arrays=arrays)
    b.slice_fn('eliminate', "    pub fn eliminate(mut a: Array2<Option<Expression<'a>>>, mut b: Array1<Option<Expression<'a>>>, state_count: usize, config: &'a RegExpConfig) -> (r: Expression<'a>)",
               '        ' + body, 'expression.rs::Expression::from statements from `for n in (0..state_count).rev()` to the end of the function',
               requires=req, clauses=[Clause('elim.result_is_initial_right_language', post, ['C01', 'C02', 'C16'])], props=['C07'], loops={1: l1, 2: l2, 3: l3, 4: l4}, blocks=blocks, pre=pre)
    b.emit('}\n} // mod code')
    b.emit(E.TRUSTED_PRELUDE)
    b.emit(E.eq_impl('Grapheme')); b.emit(E.eq_impl('Quantifier')); b.emit(E.eq_impl("Expression<'a>", "<'a>"))
    b.emit('} // verus!')
    b.emit(E.OUTSIDE)
    b.trusted += ['ndarray stand-in (Array1/Array2 indexing as vx_at/vx_set, out-of-range = precondition violation), rule R17',
                  'preconditions of the elimination loop (square matrix of size state_count, acyclic transition matrix, `rl` solves the initial equations) are what the unverified first loop of Expression::from and Dfa::from must deliver',
                  'union / concatenate / new_literal are used through the contracts that unit expr verifies', 'derived Clone/PartialEq structural; glang and star uninterpreted']
    return b

# ---------------------------------------------------------------------------------------------------------------------
MATRIX_STANDINS = r'''
// ---- opaque automaton (dfa.rs) as seen by Expression::from: assumed contracts of the four accessors it calls
pub struct Dfa { pub x: u8 }
pub struct EdgeRef { pub w: Grapheme, pub t: State }
impl EdgeRef {
    pub fn weight(&self) -> (r: &Grapheme) ensures *r == self.w { &self.w }
    pub fn target(&self) -> (r: State) ensures r == self.t { self.t }
}
pub open spec fn out_edges_ok(es: Seq<EdgeRef>, d: Dfa, s: State) -> bool {
    es.len() == d_out(d, s).len() && forall|k: int| 0 <= k < es.len() ==> (#[trigger] es[k]).w == d_out(d, s)[k].0 && es[k].t == d_out(d, s)[k].1
}
impl Dfa {
    #[verifier::external_body] pub fn states_in_depth_first_order(&self) -> (r: Vec<State>) ensures r@ == d_states(*self), states_ok(*self) { unimplemented!() }
    // ASSUMED: every state is reachable from the start state (true for automata built by Dfa::from), so node_count() is the length of the DFS order
    #[verifier::external_body] pub fn state_count(&self) -> (r: usize) ensures r == d_states(*self).len() { unimplemented!() }
    #[verifier::external_body] pub fn is_final_state(&self, state: State) -> (r: bool) ensures r == d_final(*self, state) { unimplemented!() }
    #[verifier::external_body] pub fn outgoing_edges(&self, state: State) -> (r: Vec<EdgeRef>) ensures out_edges_ok(r@, *self, state) { unimplemented!() }
}
#[verifier::external_body] pub fn vx_position(v: &Vec<State>, x: State) -> (r: Option<usize>)
    ensures r is Some <==> v@.contains(x), r is Some ==> r->Some_0 < v@.len() && v@[r->Some_0 as int] == x { unimplemented!() }
impl<T> Array1<Option<T>> {
    #[verifier::external_body] pub fn default(n: usize) -> (r: Array1<Option<T>>) ensures r@.len() == n, forall|i: int| 0 <= i < n ==> (#[trigger] r@[i]) is None { unimplemented!() }
}
impl<T> Array2<Option<T>> {
    #[verifier::external_body] pub fn default(shape: (usize, usize)) -> (r: Array2<Option<T>>)
        ensures r@.len() == shape.0, forall|i: int| 0 <= i < shape.0 ==> (#[trigger] r@[i]).len() == shape.1, forall|i: int, j: int| 0 <= i < shape.0 && 0 <= j < shape.1 ==> (#[trigger] r@[i][j]) is None { unimplemented!() }
}
'''

def build_matrix(repo, spec_dir, canary=False):
    """first loop of Expression::from: the transition matrix and final vector encode the automaton"""
    b = Builder('matrix', repo, canary)
    b.emit('#![feature(allocator_api)]\nuse vstd::prelude::*;\nuse vstd::std_specs::cmp::*;\nuse std::collections::BTreeSet;\nverus! {')
    for f, h in [('config.rs', r'^pub struct RegExpConfig \{'), ('quantifier.rs', r'^pub enum Quantifier \{'), ('substring.rs', r'^pub enum Substring \{'),
                 ('grapheme.rs', r'^pub struct Grapheme \{'), ('cluster.rs', r"^pub struct GraphemeCluster<'a> \{"), ('expression.rs', r"^pub enum Expression<'a> \{")]:
        b.type_item(f, h)
    b.emit(open(spec_dir + '/petgraph_standin.rs').read())
    b.emit('pub type State = pg::NodeIndex<u32>;')
    b.emit('pub mod spec {\nuse super::*;')
    b.emit(open(spec_dir + '/lang.rs').read())
    b.emit(open(spec_dir + '/elim.rs').read())
    b.emit(open(spec_dir + '/matrix.rs').read())
    b.emit('}')
    b.emit(NDARRAY)
    b.emit('use spec::*;')
    b.emit(MATRIX_STANDINS)
    for lab, fn in [('matrix.row_sum_is_edge_row_sum', 'lemma_row_sum_is_edge_row_sum'), ('matrix.encoded_system_meets_elimination_precondition', 'lemma_encoded_system')]:
        b.obligations.append((lab, ['C01', 'C02', 'C16']))
    b.emit('mod code {\nuse super::*;\nuse super::spec::*;')
    b.emit("impl<'a> GraphemeCluster<'a> {")
    GC = "^impl<'a> GraphemeCluster<'a> \\{"
    b.assumed_fn('cluster.rs', 'from', within=GC, ensures=['s@.len() == 0 ==> r.graphemes@.len() == 0'], why='unicode-segmentation; only the empty string is used here')
    b.assumed_fn('cluster.rs', 'new', within=GC, ensures=['r.graphemes@ == seq![grapheme]'], why='verified in unit expr against exactly this contract')
    b.emit("}\nimpl<'a> Expression<'a> {")
    EX = "^impl<'a> Expression<'a> \\{"
    b.assumed_fn('expression.rs', 'union', within=EX, ensures=[c[1] for c in E.UNION_CLAUSES], why='verified in unit expr against exactly this contract')
    b.assumed_fn('expression.rs', 'new_literal', within=EX, ensures=[c[1] for c in E.NEW_LITERAL_CLAUSES], why='verified in unit expr against exactly this contract')
    src = b.src('expression.rs')
    f, _, _ = X.fn(src, 'from', within=EX)
    a0 = f.find('let states = dfa.states_in_depth_first_order();')
    a1 = f.find('for n in (0..state_count).rev() {')
    if a0 < 0 or a1 < 0: raise X.LostAnchor('expression.rs::from first loop')
    body = f[a0:a1].rstrip()
    N = 'state_count as int'
    D0 = 'dfa'
    common = ['states@ == d_states(dfa)', 'states_ok(dfa)', 'states@.len() == state_count', 'wf_dims(a@, b@, %s)' % N]
    done = lambda up: ['forall|r: int, j: int| 0 <= r < %s && 0 <= j < state_count ==> olang(#[trigger] a@[r][j]) == edge_lang(dfa, r, j) && (a@[r][j] is Some ==> has_edge(dfa, d_states(dfa)[r], d_states(dfa)[j]))' % up,
                       'forall|r: int| 0 <= r < %s ==> olang(#[trigger] b@[r]) == fin_lang(dfa, r)' % up]
    todo = lambda frm: ['forall|r: int, j: int| %s <= r < state_count && 0 <= j < state_count ==> (#[trigger] a@[r][j]) is None' % frm, 'forall|r: int| %s <= r < state_count ==> (#[trigger] b@[r]) is None' % frm]
    l1 = common + ['0 <= it1.index@ <= state_count'] + [('matrix.rows_encoded@loop1', ['C01', 'C02', 'C16'], ' && '.join('(%s)' % x for x in done('it1.index@')))] + todo('it1.index@')
    ELS = 'vstd::std_specs::vec::into_iter_elts(it2.snapshot@)'
    l2 = common + ['i < state_count', '*state == d_states(dfa)[i as int]', 'it2.seq() == %s' % ELS, 'out_edges_ok(%s, dfa, *state)' % ELS, '0 <= it2.index@ <= %s.len()' % ELS,
                   ' && '.join('(%s)' % x for x in done('i')), ('matrix.final_vector@loop2', ['C01', 'C02', 'C16'], 'olang(b@[i as int]) == fin_lang(dfa, i as int)')] + todo('i + 1') + [
                   ('matrix.row_partial@loop2', ['C01', 'C02', 'C16'], 'row_partial(a@[i as int], dfa, i as int, %s, it2.index@)' % N)]
    blocks = [(1, 'loop_start', '''            proof { assert(i == it1.index@); }'''),
              (2, 'loop_before', '''            proof {
                assert(*state == d_states(dfa)[i as int]);
                assert forall|j: int| 0 <= j < state_count implies (a@[i as int][j]) is None by { }
                if d_final(dfa, *state) {
                    reveal_strlit("");
                    lemma_lit_empty(Seq::<Grapheme>::empty());
                    assert(b@[i as int]->Some_0->Literal_0.graphemes@ =~= Seq::<Grapheme>::empty());
                }
            }'''),
              (2, 'loop_start', '''                let ghost a_p = a@; let ghost els = vstd::std_specs::vec::into_iter_elts(it2.snapshot@); let ghost k = it2.index@; let ghost out = d_out(dfa, *state);
                proof {
                    assert(edge == els[k]);
                    assert(edge.w == out[k].0 && edge.t == out[k].1);
                    assert(d_states(dfa).contains(*state)) by { assert(d_states(dfa)[i as int] == *state); }
                    assert(d_states(dfa).contains(out[k].1));
                }'''),
              (2, 'loop_end', '''                proof {
                    assert(d_states(dfa)[j as int] == edge.t);
                    assert(a@ == a_p.update(i as int, a_p[i as int].update(j as int, vx_tmp)));
                    assert(olang(vx_tmp) =~= olang(a_p[i as int][j as int]).union(lit_lang(seq![edge.w])));
                    assert forall|c: int| 0 <= c < state_count implies olang(#[trigger] a@[i as int][c]) == edge_lang_upto(out, d_states(dfa)[c], k + 1)
                        && (a@[i as int][c] is Some ==> exists|q: int| 0 <= q < k + 1 && q < out.len() && (#[trigger] out[q]).1 == d_states(dfa)[c]) by {
                        if c == j {
                            assert(a@[i as int][c] == vx_tmp);
                            assert(olang(vx_tmp) =~= edge_lang_upto(out, d_states(dfa)[c], k + 1));
                            assert(out[k].1 == d_states(dfa)[c]);
                        } else {
                            assert(a@[i as int][c] == a_p[i as int][c]);
                            assert(d_states(dfa)[c] != edge.t) by { if d_states(dfa)[c] == edge.t { assert(d_states(dfa)[c] == d_states(dfa)[j as int]); } }
                            assert(edge_lang_upto(out, d_states(dfa)[c], k + 1) =~= edge_lang_upto(out, d_states(dfa)[c], k));
                            if a_p[i as int][c] is Some { let q = choose|q: int| 0 <= q < k && q < out.len() && (#[trigger] out[q]).1 == d_states(dfa)[c]; assert(q < k + 1 && out[q].1 == d_states(dfa)[c]); }
                        }
                    }
                    assert forall|r: int, c: int| 0 <= r < state_count && r != i && 0 <= c < state_count implies a@[r][c] == a_p[r][c] by { assert(a@[r] == a_p[r]); }
                }'''),
              (2, 'loop_after', '''            proof {
                let out = d_out(dfa, *state);
                assert forall|c: int| 0 <= c < state_count implies olang(#[trigger] a@[i as int][c]) == edge_lang(dfa, i as int, c) && (a@[i as int][c] is Some ==> has_edge(dfa, d_states(dfa)[i as int], d_states(dfa)[c])) by {
                    if a@[i as int][c] is Some { let q = choose|q: int| 0 <= q < out.len() && q < out.len() && (#[trigger] out[q]).1 == d_states(dfa)[c]; assert(out[q].1 == d_states(dfa)[c]); }
                }
            }''')]
    SUB = ('matrix.proof_steps', ['C01', 'C02', 'C16'])
    blocks = [tuple(bk) + (SUB,) for bk in blocks]
    def pre(text, log, where):
        text = D.desugar_enumerate(text, log, where)
        return D.ndarray_index(text, ['a', 'b'], log, where)
    b._parts = dict(loops={1: l1, 2: l2}, blocks=blocks)
    b.slice_fn('build_system', "    pub fn build_system(dfa: Dfa, config: &'a RegExpConfig) -> (r: (Array2<Option<Expression<'a>>>, Array1<Option<Expression<'a>>>, usize))",
               '        ' + body, 'expression.rs::Expression::from statements from `let states = ..` up to the elimination loop', epilogue='        (a, b, state_count)',
               clauses=[Clause('matrix.encodes_automaton', 'wf_dims(r.0@, r.1@, r.2 as int) && r.2 == d_states(dfa).len() && encodes(r.0@, r.1@, dfa, r.2 as int)', ['C01', 'C02', 'C16'])],
               props=['C07'], loops={1: l1, 2: l2}, blocks=blocks, pre=pre,
               extra_rules=[('R19', r'states\.iter\(\)\.position\(\|&it\| it == edge\.target\(\)\)', 'vx_position(&states, edge.target())', 'Iterator::position(closure) on the state list')])
    b.emit('}\n} // mod code')
    b.emit(E.TRUSTED_PRELUDE)
    b.emit(E.eq_impl('Grapheme')); b.emit(E.eq_impl('Quantifier')); b.emit(E.eq_impl("Expression<'a>", "<'a>"))
    b.emit('} // verus!')
    b.emit(E.OUTSIDE)
    b.trusted += ['the automaton is opaque (uninterpreted d_states / d_final / d_out): states_in_depth_first_order returns the duplicate-free DFS order closed under edges; state_count equals its length (every state reachable: true for Dfa::from); outgoing_edges lists exactly the out-edges (parallel edges allowed: their labels are unioned)',
                  'ndarray stand-in incl. ::default (all None); Iterator::position; R22 enumerate desugaring']
    return b


# ---------------------------------------------------------------------------------------------------------------------------------------
def build_whole(repo, spec_dir, canary=False):
    """unit `exprfrom`: Expression::from as ONE function -- the statements that build the matrices, then the elimination loop, then the result.
    The invariants and proof steps are the ones of units `matrix` and `elim` (taken from their builders, loop ordinals shifted by the two loops of the
    first part); between the two parts the proved lemma `lemma_encoded_system` turns "the matrices encode the automaton" into the precondition of
    the elimination.  What units matrix/elim assume about each other ("adjacent statement ranges compose") is thereby discharged."""
    import re
    bm = build_matrix(repo, spec_dir, canary=False)       # assembles the matrix unit (no Verus run): its prelude is the one needed here
    be = build(repo, spec_dir, canary=False)
    pm, pe = bm._parts, be._parts
    b = Builder('exprfrom', repo, canary)
    # prelude: the text of unit matrix up to its `mod code {`, plus the assumed functions of both units
    b.emit('#![feature(allocator_api)]\nuse vstd::prelude::*;\nuse vstd::std_specs::cmp::*;\nuse std::collections::BTreeSet;\nverus! {')
    for f, h in [('config.rs', r'^pub struct RegExpConfig \{'), ('quantifier.rs', r'^pub enum Quantifier \{'), ('substring.rs', r'^pub enum Substring \{'),
                 ('grapheme.rs', r'^pub struct Grapheme \{'), ('cluster.rs', r"^pub struct GraphemeCluster<'a> \{"), ('expression.rs', r"^pub enum Expression<'a> \{")]:
        b.type_item(f, h)
    b.emit(open(spec_dir + '/petgraph_standin.rs').read())
    b.emit('pub type State = pg::NodeIndex<u32>;')
    b.emit('pub mod spec {\nuse super::*;')
    b.emit(open(spec_dir + '/lang.rs').read()); b.emit(open(spec_dir + '/elim.rs').read()); b.emit(open(spec_dir + '/matrix.rs').read())
    b.emit('}')
    b.emit(NDARRAY)
    b.emit('use spec::*;')
    b.emit(MATRIX_STANDINS)
    b.emit('mod code {\nuse super::*;\nuse super::spec::*;')
    b.emit("impl<'a> GraphemeCluster<'a> {")
    GC = "^impl<'a> GraphemeCluster<'a> \\{"
    b.assumed_fn('cluster.rs', 'from', within=GC, ensures=['s@.len() == 0 ==> r.graphemes@.len() == 0'], why='unicode-segmentation; only the empty string is used here')
    b.assumed_fn('cluster.rs', 'new', within=GC, ensures=['r.graphemes@ == seq![grapheme]'], why='verified in unit expr against exactly this contract')
    b.emit("}\nimpl<'a> Expression<'a> {")
    EX = "^impl<'a> Expression<'a> \\{"
    A = lambda name, ens, why: b.assumed_fn('expression.rs', name, within=EX, ensures=ens, why=why)
    A('concatenate', [c[1] for c in E.CONCAT_CLAUSES], 'verified in unit expr against exactly this contract')
    A('union', [c[1] for c in E.UNION_CLAUSES], 'verified in unit expr against exactly this contract')
    A('new_literal', [c[1] for c in E.NEW_LITERAL_CLAUSES], 'verified in unit expr against exactly this contract')
    A('repeat_zero_or_more_times', [], 'only reached for a cyclic automaton (dead for the acyclic precondition); `star` is uninterpreted')
    SH = 2                                                  # the elimination part comes after the two loops of the first part
    def shift(s): return re.sub(r'\bit([1-4])\b', lambda m: 'it%d' % (int(m.group(1)) + SH), s)
    def shift_inv(inv): return [shift(i) if isinstance(i, str) else (i[0].replace('elim.', 'from.elim_').replace('@loop%s' % i[0][-1], '@loop%d' % (int(i[0][-1]) + SH)), i[1], shift(i[2])) for i in inv]
    def ren_m(inv): return [i if isinstance(i, str) else (i[0].replace('matrix.', 'from.matrix_'), i[1], i[2]) for i in inv]
    loops = {k: ren_m(v) for k, v in pm['loops'].items()}
    for k, v in pe['loops'].items(): loops[k + SH] = shift_inv(v)
    blocks = []
    for bk in pm['blocks']:
        blocks.append((bk[0], bk[1], bk[2], ('from.matrix_proof_steps', ['C01', 'C02', 'C16'])))
    for bk in pe['blocks']:
        anchor = bk[0] + SH if isinstance(bk[0], int) else bk[0]
        blocks.append((anchor, bk[1], shift(bk[2]), ('from.elim_substitution_step', ['C01', 'C02', 'C16'])))
    # between the parts: the matrices encode the automaton, hence (proved lemma) they meet the precondition of the elimination
    blocks.append((1 + SH, 'loop_before', '        proof { lemma_encoded_system(a@, b@, dfa, state_count as int); }', ('from.matrices_meet_the_elimination_precondition', ['C01', 'C02', 'C16'])))
    def pre(text, log, where):
        text = D.desugar_enumerate(text, log, where)
        return D.ndarray_index(text, ['a', 'b'], log, where)
    b.verified_fn('expression.rs', 'from', within=EX, props=['C07'], fname='Expression::from', pre=pre,
                  requires=['states_ok(dfa)', 'dfa_solved_by_rl(dfa, d_states(dfa).len() as int)', 'dfa_ranked(dfa, d_states(dfa).len() as int)'],
                  clauses=[Clause('from.result_is_the_right_language_of_the_start_state', 'd_states(dfa).len() > 0 && rl(0) != ISet::<Word>::empty() ==> lang(r) == rl(0)', ['C01', 'C02', 'C16'])],
                  loops=loops, blocks=blocks,
                  extra_rules=[('R19', r'states\.iter\(\)\.position\(\|&it\| it == edge\.target\(\)\)', 'vx_position(&states, edge.target())', 'Iterator::position(closure) on the state list')])
    b.emit('}\n} // mod code')
    b.emit(E.TRUSTED_PRELUDE)
    b.emit(E.eq_impl('Grapheme')); b.emit(E.eq_impl('Quantifier')); b.emit(E.eq_impl("Expression<'a>", "<'a>"))
    b.emit('} // verus!')
    b.emit(E.OUTSIDE)
    b.trusted += bm.trusted + [x for x in be.trusted if x not in bm.trusted]
    return b
