"""Unit `elim`: the elimination loop of Expression::from (Brzozowski's algebraic method, stage S3) under contract."""
from vx.assemble import Builder, Clause
from vx import extract as X, dialect as D
from units import expr as E

NDARRAY = r'''
// ---- stand-in for the part of ndarray that Expression::from uses (assumed contracts on a dependency; indexing out of bounds panics) ----
pub struct Array1<T> { pub v: Vec<T> }
pub struct Array2<T> { pub v: Vec<Vec<T>> }
impl<T> Array1<T> {
    pub uninterp spec fn view(&self) -> Seq<T>;
    #[verifier::external_body] pub fn vx_at(&self, i: usize) -> (r: &T) requires i < self@.len() ensures *r == self@[i as int] { unimplemented!() }
    #[verifier::external_body] pub fn vx_set(&mut self, i: usize, x: T) requires i < old(self)@.len() ensures final(self)@ == old(self)@.update(i as int, x) { unimplemented!() }
    #[verifier::external_body] pub fn is_empty(&self) -> (r: bool) ensures r == (self@.len() == 0) { unimplemented!() }
}
impl<T> Array2<T> {
    pub uninterp spec fn view(&self) -> Seq<Seq<T>>;
    #[verifier::external_body] pub fn vx_at(&self, i: usize, j: usize) -> (r: &T) requires i < self@.len(), j < self@[i as int].len() ensures *r == self@[i as int][j as int] { unimplemented!() }
    #[verifier::external_body] pub fn vx_set(&mut self, i: usize, j: usize, x: T) requires i < old(self)@.len(), j < old(self)@[i as int].len()
        ensures final(self)@ == old(self)@.update(i as int, old(self)@[i as int].update(j as int, x)) { unimplemented!() }
}
'''

def build(repo, spec_dir, canary=False):
    b = Builder('elim', repo, canary)
    b.emit('#![feature(allocator_api)]\nuse vstd::prelude::*;\nuse vstd::std_specs::cmp::*;\nuse std::collections::BTreeSet;\nverus! {')
    b.type_item('config.rs', r'^pub struct RegExpConfig \{')
    b.type_item('quantifier.rs', r'^pub enum Quantifier \{')
    b.type_item('substring.rs', r'^pub enum Substring \{')
    b.type_item('grapheme.rs', r'^pub struct Grapheme \{')
    b.type_item('cluster.rs', r"^pub struct GraphemeCluster<'a> \{")
    b.type_item('expression.rs', r"^pub enum Expression<'a> \{")
    b.emit('pub mod spec {\nuse super::*;')
    b.emit(open(spec_dir + '/lang.rs').read())
    b.emit(open(spec_dir + '/elim.rs').read())
    b.emit('}')
    b.emit(NDARRAY)
    b.emit('mod code {\nuse super::*;\nuse super::spec::*;')
    b.emit("impl<'a> GraphemeCluster<'a> {")
    b.assumed_fn('cluster.rs', 'from', within="^impl<'a> GraphemeCluster<'a> \\{", ensures=['s@.len() == 0 ==> r.graphemes@.len() == 0'], why='unicode-segmentation; only the empty string is used here')
    b.emit("}\nimpl<'a> Expression<'a> {")
    EX = "^impl<'a> Expression<'a> \\{"
    A = lambda name, ens, why: b.assumed_fn('expression.rs', name, within=EX, ensures=ens, why=why)
    A('concatenate', [c[1] for c in E.CONCAT_CLAUSES], 'verified in unit expr against exactly this contract')
    A('union', [c[1] for c in E.UNION_CLAUSES], 'verified in unit expr against exactly this contract')
    A('new_literal', [c[1] for c in E.NEW_LITERAL_CLAUSES], 'verified in unit expr against exactly this contract')
    A('repeat_zero_or_more_times', [], 'only reached for a cyclic automaton (dead for the acyclic precondition); `star` is uninterpreted')
    src = b.src('expression.rs')
    f, _, _ = X.fn(src, 'from', within=EX)
    a0 = f.find('for n in (0..state_count).rev() {')
    if a0 < 0: raise X.LostAnchor('expression.rs::from elimination loop')
    body = f[a0:f.rstrip().rfind('}')].rstrip()
    arrays = ['a', 'b']
    N = 'state_count as int'
    req = ['wf_dims(a@, b@, %s)' % N, 'acyclic(a@, %s)' % N, 'system_ok(a@, b@, %s)' % N]
    post = 'state_count > 0 && rl(0) != ISet::<Word>::empty() ==> lang(r) == rl(0)'
    M = '(state_count - it1.index@)'            # number of variables not yet eliminated at the head of the outer loop
    common = ['wf_dims(a@, b@, %s)' % N, 'acyclic(a@, %s)' % N]
    l1 = common + ['0 <= it1.index@ <= state_count',
                   ('elim.system@loop1', ['C02', 'C16', 'C01'], 'system_ok(a@, b@, %s)' % M),
                   ('elim.triangular@loop1', ['C02', 'C16', 'C01'], 'triangular(a@, b@, %s, %s)' % (M, N))]
    # loop 2 is inside `if a[(n, n)].is_some()`: unreachable for an acyclic matrix
    l2 = ['false']
    l3 = common + ['n < state_count', '0 <= it3.index@ <= n',
                   'forall|k: int| it3.index@ <= k < state_count ==> (#[trigger] a@[k]) == a_0[k]', 'forall|k: int| it3.index@ <= k < state_count ==> (#[trigger] b@[k]) == b_0[k]',
                   'wf_dims(a_0, b_0, %s)' % N, 'system_ok(a_0, b_0, n + 1)', 'row_ok(a_0, b_0, n as int, n as int)', 'a_0[n as int][n as int] is None',
                   ('elim.reduced@loop3', ['C02', 'C16', 'C01'], 'forall|k: int| 0 <= k < it3.index@ ==> #[trigger] row_ok(a@, b@, k, n as int)')]
    l4 = common + ['n < state_count', 'i < n', '0 <= it4.index@ <= n', 'wf_dims(a_1, b_1, %s)' % N,
                   'forall|k: int| 0 <= k < state_count && k != i ==> (#[trigger] a@[k]) == a_1[k]', 'b@ == b_2',
                   'forall|c: int| it4.index@ <= c < state_count ==> (#[trigger] a@[i as int][c]) == a_1[i as int][c]',
                   'a_1[i as int][n as int] is Some',
                   ('elim.row_updated@loop4', ['C02', 'C16', 'C01'], 'row_updated(a_1[i as int], a@[i as int], olang(a_1[i as int][n as int]), a_1[n as int], it4.index@)')]
    blocks = [(1, 'loop_start', '''            let ghost a_0 = a@; let ghost b_0 = b@;
            proof {
                assert(n == state_count - 1 - it1.index@);
                assert(row_ok(a_0, b_0, n as int, n + 1));
                assert(a_0[n as int][n as int] is None) by { if a_0[n as int][n as int] is Some { assert(rank(n as int) < rank(n as int)); } }
                lemma_drop_unused(a_0, b_0, n as int, n as int);
            }'''),
              (3, 'loop_start', '''                let ghost a_1 = a@; let ghost b_1 = b@;
                proof { assert(a_1[i as int] == a_0[i as int] && b_1[i as int] == b_0[i as int]); assert(row_ok(a_0, b_0, i as int, n + 1)); }'''),
              (4, 'loop_before', '''                    let ghost b_2 = b@;'''),
              (4, 'loop_start', '''                        let ghost a_p = a@;
                        proof { assert(a_p[i as int][j as int] == a_1[i as int][j as int]); assert(a_p[i as int][n as int] == a_1[i as int][n as int]); assert(a_p[n as int] == a_1[n as int]); }'''),
              (4, 'loop_end', '''                        proof {
                            assert(a@ == a_p.update(i as int, a_p[i as int].update(j as int, vx_tmp)));
                            assert forall|p: int, q: int| 0 <= p < state_count && 0 <= q < state_count && (#[trigger] a@[p][q]) is Some implies rank(p) < rank(q) by {
                                if p == i && q == j {
                                    assert(a@[p][q] == vx_tmp);
                                    if !(a_p[i as int][j as int] is Some) { assert(a_p[i as int][n as int] is Some && a_p[n as int][j as int] is Some); assert(rank(i as int) < rank(n as int)); assert(rank(n as int) < rank(j as int)); }
                                } else { assert(a@[p][q] == a_p[p][q]); }
                            }
                            assert forall|c: int| 0 <= c < it4.index@ + 1 implies olang(#[trigger] a@[i as int][c]) == olang(a_1[i as int][c]).union(cat(olang(a_1[i as int][n as int]), olang(a_1[n as int][c]))) by {
                                if c == j { assert(a@[i as int][c] == vx_tmp); assert(olang(vx_tmp) =~= olang(a_1[i as int][c]).union(cat(olang(a_1[i as int][n as int]), olang(a_1[n as int][c])))); } else { assert(a@[i as int][c] == a_p[i as int][c]); }
                            }
                        }'''),
              (3, 'loop_end', '''                proof {
                    if a_1[i as int][n as int] is Some {
                        assert(a_1[n as int] == a_0[n as int] && b_1[n as int] == b_0[n as int]);
                        assert(olang(b@[i as int]) =~= olang(b_0[i as int]).union(cat(olang(a_0[i as int][n as int]), olang(b_0[n as int]))));
                        lemma_reduce_row(a_0, b_0, a@, b@, i as int, n as int);
                    } else {
                        lemma_drop_unused(a_0, b_0, i as int, n as int);
                        assert(row_ok(a@, b@, i as int, n as int));
                    }
                    assert forall|k: int| 0 <= k < i implies #[trigger] row_ok(a@, b@, k, n as int) by { assert(row_ok(a_1, b_1, k, n as int)); assert(a@[k] == a_1[k]); assert(b@[k] == b_1[k]); }
                    assert forall|k: int| i < k < state_count implies (#[trigger] a@[k]) == a_0[k] by { assert(a_1[k] == a_0[k]); assert(a@[k] == a_1[k]); }
                    assert forall|k: int| i < k < state_count implies (#[trigger] b@[k]) == b_0[k] by { assert(b_1[k] == b_0[k]); assert(b@[k] == b_1[k]); }
                }'''),
              (1, 'loop_end', '''            proof {
                assert forall|k: int| n <= k < state_count implies #[trigger] row_ok(a@, b@, k, k) by {
                    if k == n { assert(row_ok(a_0, b_0, n as int, n as int)); } else { assert(row_ok(a_0, b_0, k, k)); }
                    assert(a@[k] == a_0[k]); assert(b@[k] == b_0[k]);
                }
            }''')]
    blocks.append((None, 'before_tail', '''        proof {
            if state_count > 0 {
                assert(row_ok(a@, b@, 0, 0));
                assert(row_sum(a@[0], 0).union(olang(b@[0])) =~= olang(b@[0]));
            }
        }'''))
    SUB = ('elim.substitution_step', ['C01', 'C02', 'C16'])
    blocks = [tuple(bk) + (SUB,) for bk in blocks]
    def pre(text, log, where):
        return D.ndarray_index(text, arrays, log, where)
    b.slice_fn('eliminate', "    pub fn eliminate(mut a: Array2<Option<Expression<'a>>>, mut b: Array1<Option<Expression<'a>>>, state_count: usize, config: &'a RegExpConfig) -> (r: Expression<'a>)",
               '        ' + body, 'expression.rs::Expression::from statements from `for n in (0..state_count).rev()` to the end of the function',
               requires=req, clauses=[Clause('elim.result_is_initial_right_language', post, ['C01', 'C02', 'C16'])], props=['C07'], loops={1: l1, 2: l2, 3: l3, 4: l4}, blocks=blocks, pre=pre)
    b.emit('}\n} // mod code')
    b.emit(E.TRUSTED_PRELUDE)
    b.emit(E.eq_impl('Grapheme')); b.emit(E.eq_impl('Quantifier')); b.emit(E.eq_impl("Expression<'a>", "<'a>"))
    b.emit('} // verus!')
    b.emit(E.OUTSIDE)
    b.trusted += ['ndarray stand-in (Array1/Array2 indexing as vx_at/vx_set, out-of-range = precondition violation), rule R17',
                  'preconditions of the elimination loop (square matrix of size state_count, acyclic transition matrix, `rl` solves the initial equations) are what the unverified first loop of Expression::from and Dfa::from must deliver',
                  'union / concatenate / new_literal are used through the contracts that unit expr verifies', 'derived Clone/PartialEq structural; glang and star uninterpreted']
    return b
