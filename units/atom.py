"""unit `atom` (C01, C03, C05, C13): a quantifier is written without a group only after ONE regex atom.

Real text under contract (grapheme.rs):
  Display for Grapheme: the statement `let is_single_char = ..;` (R7 let-slice) -- the decision whether `{n}` / `{m,n}` follows the value directly
  is_single_escape_sequence (whole function), when the tree has it
"""
import re
from vx.assemble import Builder, Clause
from vx import extract as X

SPEC = r'''
pub uninterp spec fn code_points_total(chars: Seq<String>) -> nat;      // Grapheme::char_count(false): code points of all elements together (unit charcount)
pub uninterp spec fn count_char(s: Seq<char>, c: char) -> nat;          // str::matches(c).count()
// a text that is ONE atom for the regex crate although it has more than one character: a backslash followed by one code point (\d, \., \n, \\ is two
// backslashes and never reaches here), or one \u{..} escape (one backslash, one closing brace: what char::escape_unicode prints)
pub open spec fn escape_sequence(s: Seq<char>) -> bool {
    s.len() >= 2 && s[0] == '\\' && count_char(s, '\\') == 1
    && (s.len() == 2 || (s.len() >= 4 && s[1] == 'u' && s[2] == '{' && s[s.len() - 1] == '}' && count_char(s, '}') == 1))
}
// the value of a grapheme (its `chars` joined) is one atom: one code point in all, or a single element that is one escape sequence
pub open spec fn one_atom(chars: Seq<String>) -> bool { code_points_total(chars) == 1 || (chars.len() == 1 && escape_sequence(chars[0]@)) }
#[verifier::external_body] pub fn vx_count_char(s: &str, c: char) -> (r: usize) ensures r == count_char(s@, c) { unimplemented!() }
#[verifier::external_body] pub fn vx_char_count(s: &str) -> (r: usize) ensures r == s@.len() { unimplemented!() }
#[verifier::external_body] pub fn vx_str_starts_with_char(s: &str, c: char) -> (r: bool) ensures r == (s@.len() > 0 && s@[0] == c) { unimplemented!() }
#[verifier::external_body] pub fn vx_str_ends_with_char(s: &str, c: char) -> (r: bool) ensures r == (s@.len() > 0 && s@.last() == c) { unimplemented!() }
#[verifier::external_body] pub fn vx_str_starts_with_str(s: &str, p: &str) -> (r: bool) ensures r == (p@.len() <= s@.len() && forall|i: int| 0 <= i < p@.len() ==> #[trigger] s@[i] == p@[i]) { unimplemented!() }
'''
P = ['C01', 'C03', 'C05', 'C13']
RULES = [('R19', r"((?:&\*?)?\b[\w.\[\]]+)\.matches\(('(?:\\.|[^'\\])')\)\.count\(\)", r'vx_count_char(&*\1, \2)', 'str::matches(char).count() (uninterpreted count)'),
         ('R5', r'\b([\w.\[\]]+)\.chars\(\)\.count\(\)', r'vx_char_count(&*\1)', 'chars().count(): number of code points'),
         ('R12', r"\b([\w.\[\]]+)\.starts_with\(('(?:\\.|[^'\\])')\)", r'vx_str_starts_with_char(&*\1, \2)', 'str::starts_with(char)'),
         ('R12', r"\b([\w.\[\]]+)\.ends_with\(('(?:\\.|[^'\\])')\)", r'vx_str_ends_with_char(&*\1, \2)', 'str::ends_with(char)'),
         ('R12', r'\b([\w.\[\]]+)\.starts_with\(("(?:[^"\\]|\\.)*")\)', r'vx_str_starts_with_str(&*\1, \2)', 'str::starts_with(&str): prefix test')]

def build(repo, spec_dir, canary=False):
    b = Builder('atom', repo, canary)
    b.emit('use vstd::prelude::*;\nverus! {')
    b.type_item('grapheme.rs', r'^pub struct Grapheme \{')
    b.emit(SPEC)
    gr = b.src('grapheme.rs')
    has_helper = re.search(r'^fn is_single_escape_sequence\(', gr, re.M) is not None
    if has_helper:
        b.verified_fn('grapheme.rs', 'is_single_escape_sequence', props=['C07'], fname='is_single_escape_sequence', extra_rules=RULES,
                      reveal=[],
                      clauses=[Clause('atom.escape_sequence_test_is_exact_enough', 'r ==> escape_sequence(s@)', P)])
    b.emit('impl Grapheme {')
    b.assumed_fn('grapheme.rs', 'char_count', within=r'^impl Grapheme \{', ensures=['!is_non_ascii_char_escaped ==> r == code_points_total(self.chars@)'], why='iterator chain; the plain branch counts code points (unit charcount)')
    disp, _, _ = X.item(gr, r'^impl Display for Grapheme \{')
    st, _, _ = X.let_stmt(disp, 'is_single_char')
    b.slice_fn('single_char_decision', 'pub fn single_char_decision(&self) -> (is_single_char: bool)', '        ' + st, 'grapheme.rs::Display for Grapheme `let is_single_char = ..;`', props=['C07'],
               epilogue='        is_single_char', extra_rules=RULES,
               clauses=[Clause('atom.quantifier_without_group_only_after_one_atom', 'is_single_char ==> one_atom(self.chars@)', P)])
    b.emit('}')
    b.emit('} // verus!\nfn main() {}')
    b.trusted += ['the regex crate reads `\\` + one code point and `\\u{hex}` as one atom; that a text with exactly one backslash at its start, `u{` behind it and exactly one `}` at its end is what char::escape_unicode printed (the escaper puts a backslash in front of every literal `{`, `}` and `\\`)',
                  'Display for Grapheme writes the quantifier directly behind the value exactly when `is_single_char` holds (verified structurally in unit render: render.grapheme_plain)',
                  'nested repetitions: a grapheme whose `repetitions` are printed instead of `chars` has more than one grapheme in `chars`, so neither disjunct holds (not verified here)']
    return b
