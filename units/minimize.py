"""unit `minimize`: Dfa::minimize (Hopcroft's partition refinement) and Dfa::get_parent_states on the real text.

What is decided (all inputs, all iterations):
  * the blocks `p` stay a PARTITION of the automaton's states through every split (whatever the splitter set is), so that the call of
    recreate_graph meets the precondition that unit `dfa` proves recreate_graph correct under (it used to be assumed of this caller);
  * no unwrap-on-None, no out-of-range index/remove/insert, in minimize and get_parent_states (C07);
  * minimize leaves the automaton untouched until recreate_graph, and what it returns is recreate_graph's result for that partition.
What is NOT decided: that the final partition is the coarsest stable one (language preservation and minimality of the quotient), termination.
"""
from vx.assemble import Builder, Clause
from vx import extract as X, dialect as D
from units.dfa import RECREATE_REQ, RECREATE_POST

INV = ['*self == *old(self)', ('minimize.blocks_stay_a_partition', ['C16', 'C02', 'C07'], 'partition(p@, self.graph.nodes())')]

# the contract of minimize; unit `trie` assumes exactly this text at the call site in Dfa::from
NODES_OK = ['old(self).graph.nodes().contains(old(self).initial_state)',
            'forall|a: State, b: State| #[trigger] old(self).graph.edges().contains_key((a, b)) ==> old(self).graph.nodes().contains(b)']
MINIMIZE_POST = 'exists|m: Map<State, State>| m.dom() == old(self).graph.nodes() && final(self).initial_state == m[old(self).initial_state] && #[trigger] finals_exact(m, old(self).final_state_indices@, final(self).final_state_indices@)'

def _inv(tag):
    return ['*self == *old(self)', ('minimize.blocks_stay_a_partition@%s' % tag, ['C16', 'C02', 'C07'], 'partition(p@, self.graph.nodes())'),
            ('minimize.blocks_never_mix_accepting_and_other_states@%s' % tag, ['C16', 'C02', 'C01'], 'pure(p@, self.final_state_indices@)')]

def build(repo, spec_dir, canary=False):
    b = Builder('minimize', repo, canary)
    b.emit('#![feature(allocator_api)]\nuse vstd::prelude::*;\nuse vstd::std_specs::cmp::*;\nuse vstd::std_specs::iter::IteratorSpec;\nuse vstd::std_specs::hash::*;\nuse vstd::std_specs::vec::*;\nuse std::collections::{BTreeSet, HashMap, HashSet};\nverus! {')
    b.emit('broadcast use {vstd::std_specs::hash::group_hash_axioms, axiom_nodeindex_key_model};')
    b.type_item('config.rs', r'^pub struct RegExpConfig \{')
    b.type_item('grapheme.rs', r'^pub struct Grapheme \{')
    b.emit(open(spec_dir + '/petgraph_standin.rs').read())
    b.emit('use pg::*;\ntype State = NodeIndex<u32>;\ntype StateLabel = String;\ntype EdgeLabel = Grapheme;')
    b.emit('pub assume_specification [<Grapheme as Clone>::clone] (e: &Grapheme) -> (r: Grapheme) ensures r == *e;')
    b.emit('pub mod sp {\nuse super::*;'); b.emit(open(spec_dir + '/dfa.rs').read()); b.emit('}\nuse sp::*;')
    b.emit('pub mod mz {\nuse super::*;'); b.emit(open(spec_dir + '/minimize.rs').read()); b.emit('}\nuse mz::*;')
    b.type_item('dfa.rs', r"^pub struct Dfa<'a> \{")
    b.emit('pub uninterp spec fn joined(c: Seq<String>) -> Seq<char>;\nimpl Grapheme {')
    G = r'^impl Grapheme \{'
    b.assumed_fn('grapheme.rs', 'value', within=G, ensures=['r@ == joined(self.chars@)'], why='Vec<String>::join (std); uninterpreted `joined`')
    for name, ens in [('minimum', 'r == self.min'), ('maximum', 'r == self.max')]:
        b.verified_fn('grapheme.rs', name, within=G, clauses=[Clause('grapheme.%s' % name, ens, ['C16'])], props=['C07'], fname='Grapheme::' + name)
    b.emit("}\nimpl<'a> Dfa<'a> {")
    Dm = "^impl<'a> Dfa<'a> \\{"
    b.assumed_fn('dfa.rs', 'recreate_graph', within=Dm, requires=RECREATE_REQ, ensures=[RECREATE_POST], why='verified in unit dfa against exactly this contract')
    gip, _, _ = X.fn(b.src('dfa.rs'), 'get_initial_partition', within=Dm)
    ce, _, _ = X.closure_expr(gip, '.partition(|&state| ')
    NEG = 'true' if ce.strip().startswith('!') else 'false'
    b.assumed_fn('dfa.rs', 'get_initial_partition', within=Dm, ensures=['r@.len() == 2', 'partition(r@, self.graph.nodes())',
                                                                         'forall|s: State| #[trigger] r@[0]@.contains(s) ==> first_block_test(s, self.final_state_indices@, %s)' % NEG,
                                                                         'forall|s: State| #[trigger] r@[1]@.contains(s) ==> !first_block_test(s, self.final_state_indices@, %s)' % NEG],
                 why='node_indices().partition(closure) (petgraph + Iterator::partition): two disjoint sets that together hold every state; the first holds the states the closure answers true for, the second the others -- the closure itself is verified against `first_block_test` (initial_partition.separates_accepting_states)')
    # the closure of get_initial_partition: the test that decides the block
    b.emit('}')
    b.slice_fn('initial_block_test', "pub fn initial_block_test<'a>(self_: &Dfa<'a>, state: State) -> (r: bool)", '    ' + ce.strip().replace('self.', 'self_.'), 'dfa.rs::get_initial_partition closure |&state|', props=['C07'],
               extra_rules=[('R39', r'\.next\(\)\.is_some\(\)', '.len() > 0', 'ITER.next().is_some() on a petgraph iterator that the stand-in returns as a Vec: the sequence is not empty')],
               clauses=[Clause('initial_partition.separates_accepting_states', 'r == first_block_test(state, self_.final_state_indices@, %s)' % NEG, ['C16', 'C02', 'C01'])])
    b.emit("impl<'a> Dfa<'a> {")
    # get_parent_states: every returned state has an edge into the splitter block
    PAR = 'forall|s: State| x@.contains(s) ==> exists|t: State| a@.contains(t) && #[trigger] self.graph.edges().contains_key((s, t))'
    # exactness (C01, C05, C16): Hopcroft splits by the states that have a transition on THIS symbol into the splitter; a symbol is a label (text and both counts)
    PARX = 'forall|s: State| x@.contains(s) ==> exists|t: State| a@.contains(t) && #[trigger] self.graph.edges().contains_key((s, t)) && label_eq(self.graph.edges()[(s, t)], *label)'
    XP = ['C01', 'C05', 'C16']
    ks = 'into_iter_hash_keys(it1.snapshot@)'
    b.verified_fn('dfa.rs', 'get_parent_states', within=Dm, props=['C07'], fname='Dfa::get_parent_states',
                  pre=lambda t, log, w: D.desugar_for_patterns(t, log, w),
                  clauses=[Clause('get_parent_states.are_parents', PAR.replace('x@', 'r@'), ['C16', 'C07']),
                           Clause('get_parent_states.parents_on_the_same_symbol', PARX.replace('x@', 'r@'), XP)],          # fails on the unchanged tree: KF4 (same text and same minimum OR same maximum is accepted)
                  loops={1: ['%s.to_set() == a@' % ks, 'it1.seq().len() == %s.len()' % ks, '(forall|i: int| 0 <= i < it1.seq().len() ==> *#[trigger] it1.seq()[i] == %s[i])' % ks,
                             ('get_parent_states.are_parents@loop1', ['C16', 'C07'], PAR), ('get_parent_states.parents_on_the_same_symbol@loop1', XP, PARX)],
                         2: ['a@.contains(state)', 'forall|t: State| direct_parent_states@.contains(t) <==> self.graph.edges().contains_key((t, state))',
                             ('get_parent_states.are_parents@loop2', ['C16', 'C07'], PAR), ('get_parent_states.parents_on_the_same_symbol@loop2', XP, PARX)]},
                  blocks=[(1, 'loop_start', '            proof { let ks = %s; assert(ks.to_set().contains(ks[it1.index@])) by { assert(ks.contains(ks[it1.index@])); } }' % ks),
                          ('let direct_parent_states', 'before', '            proof { assert(a@.contains(state)); }'),
                          (2, 'loop_start', '                proof { assert(direct_parent_states@.contains(parent_state)) by { assert(it2.seq()[it2.index@] == parent_state); } }')])
    # minimize
    def pre(t, log, w):
        t = D.desugar_for_patterns(t, log, w)
        t = D.annotate_let(t, log, w, 'replacements', 'Vec<(HashSet<State>, HashSet<State>, HashSet<State>)>')
        t = D.hoist_call_argument(t, log, w, 'self.recreate_graph', 'vx_blocks')
        return t
    GOOD = ('is_replacement_needed ==> replacements@.len() > 0 && start_idx < p@.len()'
            ' && replacements@.last().1@ == x@.intersect(p@[start_idx as int]@) && replacements@.last().2@ == p@[start_idx as int]@.difference(x@)')
    b.verified_fn('dfa.rs', 'minimize', within=Dm, props=['C07'], fname='Dfa::minimize', desugar_continue=True, pre=pre, extra_rules=D.SET_RULES,
                  attr='#[verifier::exec_allows_no_decreases_clause]',
                  requires=NODES_OK,
                  clauses=[Clause('minimize.result_is_a_quotient_by_a_partition',
                                  MINIMIZE_POST,
                                  ['C16', 'C02'])],
                  loops={'w1': _inv('while1') + ['p@.len() >= 2'],
                         1: _inv('loop1') + ['p@.len() >= 2'],
                         'w2': _inv('while2') + ['p@.len() >= 2', 'start_idx < p@.len()'],
                         2: ['!break is_replacement_needed ==> it2.index@ == 0'] + _inv('loop2') + ['p@.len() >= 2', 'start_idx < p@.len()', 'it2.iter.end == p@.len()', 'it2.snapshot.start < it2.snapshot.end',
                             ('minimize.pending_split_is_intersection_and_difference@loop2', ['C16', 'C02', 'C07'], '!ensures ' + GOOD)],
                         3: _inv('loop3') + ['p@.len() >= 2']},
                  blocks=[('let mut w = ', 'before', '        proof { lemma_initial_partition_is_pure(p@, self.final_state_indices@, %s); }' % NEG, ('minimize.initial_partition_separates_accepting_states', ['C16', 'C02', 'C01'])),
                          ('if is_replacement_needed {', 'before', '                    let ghost vx_p0 = p@;'),
                          ('if is_replacement_needed {', 'after_block', '                    proof { if is_replacement_needed { lemma_split_keeps_pure(vx_p0, p@, start_idx as int, x@, self.final_state_indices@); } }', ('minimize.split_never_mixes_accepting_and_other_states', ['C16', 'C02', 'C01'])),
                          ('if is_replacement_needed {', 'after_block', '                    proof { if is_replacement_needed { lemma_split_keeps_partition(vx_p0, p@, start_idx as int, x@, self.graph.nodes()); } }', ('minimize.split_keeps_partition', ['C16', 'C02', 'C07'])),
                          ('self.recreate_graph(vx_blocks);', 'before', '        proof { lemma_filtered_partition(p@, vx_blocks@, self.graph.nodes()); }', ('minimize.recreate_precondition', ['C16', 'C02', 'C07'])),
                          ('self.recreate_graph(vx_blocks);', 'before', '        proof { lemma_filtered_pure(p@, vx_blocks@, self.final_state_indices@); assert(pure_refs(vx_blocks@, self.final_state_indices@)); }', ('minimize.every_class_is_all_accepting_or_all_not', ['C16', 'C02', 'C01']))])
    b.emit('}\n} // verus!\nimpl Clone for Grapheme { fn clone(&self) -> Self { unimplemented!() } }\nimpl PartialEq for Grapheme { fn eq(&self, o: &Self) -> bool { unimplemented!() } }\nimpl Eq for Grapheme {}\nimpl PartialOrd for Grapheme { fn partial_cmp(&self, o: &Self) -> Option<std::cmp::Ordering> { unimplemented!() } }\nimpl Ord for Grapheme { fn cmp(&self, o: &Self) -> std::cmp::Ordering { unimplemented!() } }\nfn main() {}')
    b.trusted += ['petgraph stand-in (neighbors_directed, find_edge, edge_weight) with ghost nodes/edges; NodeIndex obeys the hash-key model',
                  'std HashSet / Vec iterator idioms through the stand-ins of spec/minimize.rs (R27): intersection, difference, count, cloned, drain(0..1), position, filter(non-empty), contains',
                  'get_initial_partition (Iterator::partition over node_indices()) is assumed to return two disjoint sets covering the states',
                  'termination of minimize is NOT proved (#[verifier::exec_allows_no_decreases_clause]); that the refinement reaches the coarsest stable partition (language preservation, minimality) is NOT decided']
    return b
