"""Unit `tables`: grex's Unicode tables equal the regex crate's Perl-class tables (C09), for all scalar values."""
import re, glob, os
from vx.assemble import Builder, Clause

CH = r"'(?:\\u\{[0-9a-fA-F]+\}|\\.|[^'\\])'"
def parse_table(path, const):
    s = open(path).read()
    m = re.search(r'\bconst\s+' + const + r'\s*:[^=]*=\s*&\[', s)
    if not m: raise KeyError('table %s not found in %s' % (const, path))
    j = s.index('];', m.end())
    body = s[m.end():j]
    rs = re.findall(r"\(\s*(%s)\s*,\s*(%s)\s*\)" % (CH, CH), body)
    if not rs: raise KeyError('empty table %s' % const)
    return rs
def cp(lit):
    t = lit[1:-1]
    if t.startswith('\\u{'): return int(t[3:-1], 16)
    esc = {'\\t': 9, '\\n': 10, '\\r': 13, "\\'": 39, '\\\\': 92, '\\0': 0}
    if t in esc: return esc[t]
    return ord(t)
def regex_syntax_dir(repo):
    lock = open(os.path.join(repo, 'Cargo.lock')).read()
    m = re.search(r'name = "regex-syntax"\nversion = "([^"]+)"', lock)
    if not m: raise KeyError('regex-syntax not in Cargo.lock')
    c = glob.glob(os.path.expanduser('~/.cargo/registry/src/*/regex-syntax-%s/src/unicode_tables' % m.group(1)))
    if not c: raise KeyError('regex-syntax-%s sources not in the offline registry' % m.group(1))
    return c[0], m.group(1)
def spec_pred(name, rs, K=16):
    out, chunks = '', [rs[i:i + K] for i in range(0, len(rs), K)]
    for n, ch in enumerate(chunks):
        out += 'pub open spec fn %s_%d(c: char) -> bool {\n    ' % (name, n) + '\n    || '.join('(%s <= c && c <= %s)' % (a, b) for a, b in ch) + '\n}\n'
    def tree(lo, hi):
        if hi - lo == 1: return '%s_%d(c)' % (name, lo)
        mid = (lo + hi) // 2
        return '(' + tree(lo, mid) + ' || ' + tree(mid, hi) + ')'
    return out + 'pub open spec fn %s(c: char) -> bool { %s }\n' % (name, tree(0, len(chunks)))
TABLES = [('digit', 'decimal.rs', 'DECIMAL_NUMBER', 'perl_decimal.rs', 'DECIMAL_NUMBER'),
          ('space', 'space.rs', 'WHITE_SPACE', 'perl_space.rs', 'WHITE_SPACE'),
          ('word', 'word.rs', 'WORD', 'perl_word.rs', 'PERL_WORD')]
def load(repo):
    rdir, ver = regex_syntax_dir(repo)
    data = {}
    for key, gf, gc, rf, rc in TABLES:
        data[key] = (parse_table(os.path.join(repo, 'src/unicode_tables', gf), gc), parse_table(os.path.join(rdir, rf), rc))
    return data, ver
def build(repo, spec_dir, canary=False):
    b = Builder('tables', repo, canary)
    data, ver = load(repo)
    b.emit('use vstd::prelude::*;\nverus! {')
    for key, (g, r) in data.items():
        b.emit(spec_pred('grex_' + key, g)); b.emit(spec_pred('regex_' + key, r))
        first = b.lineno()
        b.emit('pub proof fn %s_tables_agree()' % key)
        b.emit('    ensures')
        ln = b.lineno()
        b.emit('        forall|c: char| grex_%s(c) == regex_%s(c),' % (key, key))
        b.linemap[ln] = ('%s_tables_agree' % key, 'tables.%s' % key, ['C09'])
        b.emit('{}')
        b.fn_ranges.append((first, b.lineno() - 1, '%s_tables_agree' % key, ['C09'], 'tables.%s' % key))
        b.obligations.append(('tables.%s' % key, ['C09']))
        b.log.add('T', 'unicode_tables/%s' % key, '%d + %d ranges' % (len(g), len(r)), 'spec predicates')
    b.emit('} // verus!\nfn main() {}')
    b.trusted += ['regex-syntax %s builds \\d, \\s, \\w from perl_decimal/perl_space/perl_word tables (read, not proved)' % ver]
    return b
def witness(repo):
    """concrete scalar values on which a grex table and the regex crate's differ: a model of the same disjunctions, from the z3 binary (SMT-LIB 2)."""
    import subprocess, tempfile
    data, _ = load(repo)
    out = {}
    for key, (g, r) in data.items():
        mem = lambda rs: '(or false %s)' % ' '.join('(and (<= %d c) (<= c %d))' % (cp(a), cp(bb)) for a, bb in rs)
        smt = '(declare-const c Int)\n(assert (and (<= 0 c) (<= c 1114111) (or (< c 55296) (> c 57343))))\n(assert (distinct %s %s))\n(check-sat)\n(get-value (c))\n' % (mem(g), mem(r))
        with tempfile.NamedTemporaryFile('w', suffix='.smt2', delete=False) as f:
            f.write(smt); path = f.name
        try:
            p = subprocess.run(['z3', path], capture_output=True, text=True, timeout=120)
            if p.stdout.startswith('sat'):
                m = re.search(r'\(\(c (\d+)\)\)', p.stdout)
                if m: out[key] = int(m.group(1))
        finally:
            os.unlink(path)
    return out

def replay_witness(repo, label):
    """z3 model of the failed table equality -> one scalar value -> replayed on the real library."""
    from vx import witness as W
    key = label.split('.')[-1]
    try:
        w = witness(repo)
    except Exception as e:
        return {'why': 'z3 witness extraction failed: %r' % (e,)}
    if key not in w: return {'why': 'z3 finds no scalar value on which the %s tables differ' % key}
    c = w[key]
    data, _ = load(repo)
    g, r = data[key]
    in_g = any(cp(a) <= c <= cp(b) for a, b in g)
    flag, tok = {'digit': ('--digits', r'\d'), 'space': ('--spaces', r'\s'), 'word': ('--words', r'\w')}[key]
    lit = r'\u{%x}' % c
    # grex converts c although the regex class does not contain it: the pattern no longer matches the test case;
    # grex does not convert c although the class contains it: the documented conversion does not happen
    args = [flag, '--', lit] if in_g else [flag, '--expect-regex', '^%s$' % tok, '--', lit]
    out = W.replay_on_real_code(args)
    return {'args': args, 'output': 'scalar value U+%04X: in grex table=%s, in regex-syntax table=%s\n%s' % (c, in_g, not in_g, out['output'])}
