"""unit `classes` (C03): GraphemeCluster::convert_to_char_classes as a whole function -- every element of every grapheme is rewritten code point by
code point with the documented precedence; nothing else changes (so the graphemes stay what Grapheme::from made them: one element, no quantifier).

Real text under contract: the whole function (cluster.rs).  The loop over `iter_mut()` is desugared by R24; the two closures keep their text and get a
parameter type and a contract that Verus checks against their bodies (R35, R38).
"""
import re
from vx.assemble import Builder, Clause
from vx import extract as X, dialect as D, rustlex as L
from units import smallslices as S

FLAGS = 'is_digit_converted, is_non_digit_converted, is_space_converted, is_non_space_converted, is_word_converted, is_non_word_converted'
TOK = 'tok_str(documented(%s, %s), %s)'

SPEC = r'''
pub uninterp spec fn digit(c: char) -> bool;
pub uninterp spec fn word(c: char) -> bool;
pub uninterp spec fn space(c: char) -> bool;
#[verifier::external_body] pub fn is_digit(c: char) -> (r: bool) ensures r == digit(c) { unimplemented!() }
#[verifier::external_body] pub fn is_word(c: char) -> (r: bool) ensures r == word(c) { unimplemented!() }
#[verifier::external_body] pub fn is_space(c: char) -> (r: bool) ensures r == space(c) { unimplemented!() }
pub enum Tok { D, W, S, ND, NW, NS, Lit }
pub open spec fn tok_str(t: Tok, c: char) -> Seq<char> {
    match t { Tok::D => "\\d"@, Tok::W => "\\w"@, Tok::S => "\\s"@, Tok::ND => "\\D"@, Tok::NW => "\\W"@, Tok::NS => "\\S"@, Tok::Lit => seq![c] }
}
// the documented precedence (builder.rs docs / README): digit, word, whitespace, non-digit, non-word, non-whitespace
pub open spec fn documented(c: char, d: bool, nd: bool, s: bool, ns: bool, w: bool, nw: bool) -> Tok {
    if d && digit(c) { Tok::D } else if w && word(c) { Tok::W } else if s && space(c) { Tok::S }
    else if nd && !digit(c) { Tok::ND } else if nw && !word(c) { Tok::NW } else if ns && !space(c) { Tok::NS } else { Tok::Lit }
}
pub open spec fn token_map(d: bool, nd: bool, s: bool, ns: bool, w: bool, nw: bool) -> spec_fn(char) -> Seq<char> { |c: char| tok_str(documented(c, d, nd, s, ns, w, nw), c) }
// the text of a string with every code point replaced by its token
pub open spec fn converted(s: Seq<char>, d: bool, nd: bool, s_: bool, ns: bool, w: bool, nw: bool) -> Seq<char> { fm(s, token_map(d, nd, s_, ns, w, nw)) }
pub open spec fn concat_views(parts: Seq<String>, n: int) -> Seq<char> decreases n { if n <= 0 { Seq::empty() } else { concat_views(parts, n - 1) + parts[n - 1]@ } }
pub proof fn lemma_concat_is_fm(s: Seq<char>, parts: Seq<String>, g: spec_fn(char) -> Seq<char>, n: int)
    requires 0 <= n <= s.len(), parts.len() == s.len(), forall|i: int| 0 <= i < s.len() ==> (#[trigger] parts[i])@ == g(s[i])
    ensures concat_views(parts, n) == fm(s.subrange(0, n), g)
    decreases n
{
    if n == 0 { assert(s.subrange(0, 0) =~= Seq::<char>::empty()); }
    else {
        lemma_concat_is_fm(s, parts, g, n - 1);
        assert(s.subrange(0, n) =~= s.subrange(0, n - 1) + seq![s[n - 1]]);
        lemma_fm_append(s.subrange(0, n - 1), seq![s[n - 1]], g);
        assert(fm(seq![s[n - 1]], g) =~= g(s[n - 1])) by { assert(seq![s[n - 1]].drop_first() =~= Seq::<char>::empty()); assert(fm(Seq::<char>::empty(), g) =~= Seq::<char>::empty()); }
    }
}
// `s.chars().map(closure).join("")`: the closure applied to every code point in order, the results concatenated
#[verifier::external_body] pub fn vx_map_chars_join<F: Fn(char) -> String>(s: &String, f: F) -> (r: String)
    requires forall|c: char| f.requires((c,))
    // whatever function g describes the closure's results, the joined text is the flat map of g over the code points (lemma_concat_is_fm proves this
    // form from the elementary one: "the i-th piece is the closure's result for the i-th code point, the pieces are concatenated in order")
    ensures forall|g: spec_fn(char) -> Seq<char>| (forall|c: char, x: String| f.ensures((c,), x) ==> x@ == g(c)) ==> r@ == #[trigger] fm(s@, g) { unimplemented!() }
// `v.iter().map(closure).collect_vec()` on a Vec<String>
#[verifier::external_body] pub fn vx_map_strings<F: Fn(&String) -> String>(v: &Vec<String>, f: F) -> (r: Vec<String>)
    requires forall|i: int| 0 <= i < v@.len() ==> f.requires((&#[trigger] v@[i],))
    ensures r@.len() == v@.len(), forall|i: int| 0 <= i < v@.len() ==> f.ensures((&v@[i],), #[trigger] r@[i]) { unimplemented!() }
pub open spec fn grapheme_converted(o: Grapheme, n: Grapheme, d: bool, nd: bool, s: bool, ns: bool, w: bool, nw: bool) -> bool {
    n.chars@.len() == o.chars@.len() && (forall|j: int| 0 <= j < o.chars@.len() ==> (#[trigger] n.chars@[j])@ == converted(o.chars@[j]@, d, nd, s, ns, w, nw))
    && n.repetitions == o.repetitions && n.min == o.min && n.max == o.max
    && n.is_capturing_group_enabled == o.is_capturing_group_enabled && n.is_output_colorized == o.is_output_colorized && n.is_verbose_mode_enabled == o.is_verbose_mode_enabled
}
'''

def _closures(t, log, w):
    """R38: `IT.chars().map(|c| { B }).join("")` => vx_map_chars_join(IT, |c: char| -> (vx_t: String) ensures .. { B }); R35 for the outer `.iter().map(|it| ..).collect_vec()`"""
    flags = FLAGS
    m = re.search(r'\b(\w+)\.chars\(\)\s*\.map\(', t)
    if m:
        po = m.end() - 1; pc = L.match_close(t, po)
        tail = re.match(r'\s*\.join\(""\)', t[pc + 1:])
        mm = re.match(r'\|(\w+)\|\s*', t[po + 1:pc].strip())
        if tail and mm:
            c = mm.group(1)
            clo = t[po + 1:pc].strip()
            clo = '|%s: char| -> (vx_t: String) ensures /*#classify.precedence_in_place#*/ vx_t@ == %s ' % (c, TOK % (c, flags, c)) + clo[mm.end():]
            log.add('R38', w, '%s.chars().map(closure).join("")' % m.group(1), 'vx_map_chars_join(%s, closure): the closure applied to every code point in order, results concatenated; the closure keeps its text and gets a checked contract' % m.group(1))
            t = t[:m.start()] + 'vx_map_chars_join(%s, %s)' % (m.group(1), clo) + t[pc + 1 + tail.end():]
    m = re.search(r'((?:\w+\s*\.\s*)*\w+)\s*\.iter\(\)\s*\.map\(', t)
    if m:
        recv = re.sub(r'\s+', '', m.group(1))
        po = m.end() - 1; pc = L.match_close(t, po)
        tail = re.match(r'\s*\.collect_vec\(\)', t[pc + 1:])
        mm = re.match(r'\|(\w+)\|\s*', t[po + 1:pc].strip())
        if tail and mm:
            it = mm.group(1)
            clo = t[po + 1:pc].strip()
            clo = '|%s: &String| -> (vx_s: String) ensures /*#convert_to_char_classes.element_is_converted_code_point_by_code_point#*/ vx_s@ == converted(%s@, %s) ' % (it, it, flags) + clo[mm.end():]
            log.add('R35', w, '%s.iter().map(closure).collect_vec()' % recv, 'vx_map_strings(&%s, closure): the closure applied to every element in order; the closure keeps its text and gets a checked contract' % recv)
            t = t[:m.start()] + 'vx_map_strings(&%s, %s)' % (recv, clo) + t[pc + 1 + tail.end():]
    return t

def build(repo, spec_dir, canary=False):
    b = Builder('classes', repo, canary)
    b.emit('use vstd::prelude::*;\nverus! {')
    b.emit(S.HELPERS)
    b.emit('pub mod rm {\nuse super::*;'); b.emit(open(spec_dir + '/replace_model.rs').read()); b.emit('}\nuse rm::*;')
    b.type_item('config.rs', r'^pub struct RegExpConfig \{')
    b.type_item('grapheme.rs', r'^pub struct Grapheme \{')
    b.type_item('cluster.rs', r"^pub struct GraphemeCluster<'a> \{")
    b.emit(SPEC)
    CL = r"^impl<'a> GraphemeCluster<'a> \{"
    cfg = ', '.join('old(self).config.' + f for f in FLAGS.split(', '))
    def pre(t, log, w):
        t = D.desugar_iter_mut(t, log, w)
        return _closures(t, log, w)
    b.emit("impl<'a> GraphemeCluster<'a> {")
    b.verified_fn('cluster.rs', 'convert_to_char_classes', within=CL, props=['C07'], fname='GraphemeCluster::convert_to_char_classes', pre=pre, reveal=[],
                  extra_rules=[('R4', r'\bc\.to_string\(\)', 'vx_char_to_string(c)', 'char -> one-char String')],
                  clauses=[Clause('convert_to_char_classes.every_code_point_by_the_documented_precedence',
                                  'final(self).graphemes@.len() == old(self).graphemes@.len() && forall|k: int| 0 <= k < old(self).graphemes@.len() ==> grapheme_converted(#[trigger] old(self).graphemes@[k], final(self).graphemes@[k], %s)' % cfg, ['C03', 'C09']),
                           Clause('convert_to_char_classes.settings_kept', 'final(self).config == old(self).config', ['C03', 'C10'])],
                  loops={1: ['vx_v1@.len() == old(self).graphemes@.len()', 'it1.iter.end == vx_v1@.len()', 'self.config == old(self).config'] +
                            [('convert_to_char_classes.options_read_from_the_settings@loop1', ['C03'], ' && '.join('%s == old(self).config.%s' % (f, f) for f in FLAGS.split(', ')))] +
                            [('convert_to_char_classes.converted_so_far@loop1', ['C03', 'C09'], 'forall|k: int| 0 <= k < vx_k1 ==> grapheme_converted(#[trigger] old(self).graphemes@[k], vx_v1@[k], %s)' % FLAGS),
                             'forall|k: int| vx_k1 <= k < vx_v1@.len() ==> #[trigger] vx_v1@[k] == old(self).graphemes@[k]'],
                         98: [('classify.precedence_in_place', ['C03', 'C09'], 'true')], 99: [('convert_to_char_classes.element_is_converted_code_point_by_code_point', ['C03', 'C09'], 'true')]},
                  blocks=[(1, 'loop_end', '''            proof {
                let o = old(self).graphemes@[vx_k1 as int]; let n = vx_v1@[vx_k1 as int];
                assert forall|j: int| 0 <= j < o.chars@.len() implies (#[trigger] n.chars@[j])@ == converted(o.chars@[j]@, %s) by { }
            }''' % FLAGS, ('convert_to_char_classes.converted_so_far@loop1', ['C03', 'C09']))])
    b.emit('}')
    b.emit('} // verus!\nfn main() {}')
    b.trusted += ['`s.chars().map(closure).join("")` applies the closure to every code point in order and concatenates the results (stand-in vx_map_chars_join); `.iter().map(closure).collect_vec()` applies the closure to every element in order (vx_map_strings); both closures keep their text and are checked against the contract written in front of their bodies (R35, R38)',
                  'is_digit / is_word / is_space equal digit / word / space (C09: unit tables and the Kani look-ups)']
    return b

# ---------------------------------------------------------------------------------------------------------------------------------------
def build_stage1(repo, spec_dir, canary=False):
    """unit `stage1` (C16-S1, C03, C05): RegExp::grapheme_clusters as a whole function -- one cluster per test case, in order; class conversion iff one of the
    six options is set; repetition conversion iff requested, and it never changes the symbols a cluster stands for."""
    b = Builder('stage1', repo, canary)
    b.emit('use vstd::prelude::*;\nverus! {')
    b.type_item('config.rs', r'^pub struct RegExpConfig \{')
    b.type_item('grapheme.rs', r'^pub struct Grapheme \{')
    b.type_item('cluster.rs', r"^pub struct GraphemeCluster<'a> \{")
    b.emit(open(spec_dir + '/splice.rs').read())
    b.emit(open(spec_dir + '/repeats.rs').read())
    b.emit(r'''
// segmentation of one test case (unicode-segmentation + the split rules of GraphemeCluster::from): opaque; what matters here is that every grapheme is plain
pub uninterp spec fn segments(s: Seq<char>, c: RegExpConfig) -> Seq<Grapheme>;
// what convert_to_char_classes does to one list of graphemes (unit classes: convert_to_char_classes.every_code_point_by_the_documented_precedence): opaque here
pub uninterp spec fn classes_of(gs: Seq<Grapheme>, c: RegExpConfig) -> Seq<Grapheme>;
pub open spec fn class_feature(c: RegExpConfig) -> bool { c.is_digit_converted || c.is_non_digit_converted || c.is_space_converted || c.is_non_space_converted || c.is_word_converted || c.is_non_word_converted }
// whether grapheme_clusters runs the conversion: the answer of is_char_class_feature_enabled -- a pure function of the settings that is true WHENEVER one of the six options is set
// (the code also answers true for case-insensitive matching and capturing groups; the conversion is then the identity: unit classes)
pub uninterp spec fn conversion_runs(c: RegExpConfig) -> bool;
pub open spec fn prepared(s: Seq<char>, c: RegExpConfig) -> Seq<Grapheme> { if conversion_runs(c) { classes_of(segments(s, c), c) } else { segments(s, c) } }
impl RegExpConfig {
    // verified in unit gates against this clause (class_gate.*)
    #[verifier::external_body] pub fn is_char_class_feature_enabled(&self) -> (r: bool) ensures class_feature(*self) ==> r, r == conversion_runs(*self) { unimplemented!() }
}
impl<'a> GraphemeCluster<'a> {
    // the graphemes of a cluster are what the closure of flat_map builds for every segment (slice segment_graphemes below: every one of them is plain)
    #[verifier::external_body] pub fn from(s: &str, config: &'a RegExpConfig) -> (r: Self)
        ensures r.graphemes@ == segments(s@, *config), r.config == config, all_plain(r.graphemes@), r.graphemes@.len() < 0x1_0000_0000 { unimplemented!() }
    // unit classes verifies the element-wise statement; here: the list is classes_of(old list), lengths and plain-ness are kept (what that statement implies)
    #[verifier::external_body] pub fn convert_to_char_classes(&mut self)
        ensures final(self).graphemes@ == classes_of(old(self).graphemes@, *old(self).config), final(self).config == old(self).config,
                all_plain(old(self).graphemes@) ==> all_plain(final(self).graphemes@), final(self).graphemes@.len() == old(self).graphemes@.len() { unimplemented!() }
    // verified in unit repeats against exactly these clauses (cluster_convert.*)
    #[verifier::external_body] pub fn convert_repetitions(&mut self)
        requires all_plain(old(self).graphemes@), old(self).graphemes@.len() < 0x1_0000_0000
        ensures deepflat(final(self).graphemes@) == deepflat(old(self).graphemes@), final(self).config == old(self).config { unimplemented!() }
}
#[verifier::external_body] pub fn vx_map_clusters<'a, F: Fn(&String) -> GraphemeCluster<'a>>(v: &[String], f: F) -> (r: Vec<GraphemeCluster<'a>>)
    requires forall|i: int| 0 <= i < v@.len() ==> f.requires((&#[trigger] v@[i],))
    ensures r@.len() == v@.len(), forall|i: int| 0 <= i < v@.len() ==> f.ensures((&v@[i],), #[trigger] r@[i]) { unimplemented!() }
pub struct RegExp<'a> { pub x: &'a u8 }
''')
    P = ['C16', 'C03', 'C05']
    def pre(t, log, w):
        t = D.desugar_iter_mut(t, log, w)
        m = re.search(r'(\w+)\s*\.iter\(\)\s*\.map\(', t)
        if m:
            po = m.end() - 1; pc = L.match_close(t, po)
            tail = re.match(r'\s*\.collect_vec\(\)', t[pc + 1:])
            mm = re.match(r'\|(\w+)\|\s*', t[po + 1:pc].strip())
            if tail and mm:
                it = mm.group(1); clo = t[po + 1:pc].strip()
                clo = "|%s: &String| -> (vx_c: GraphemeCluster<'a>) ensures /*#grapheme_clusters.one_cluster_per_test_case#*/ vx_c.graphemes@ == segments(%s@, *config) && vx_c.config == config && all_plain(vx_c.graphemes@) && vx_c.graphemes@.len() < 0x1_0000_0000 { %s }" % (it, it, clo[mm.end():])
                log.add('R35', w, '%s.iter().map(closure).collect_vec()' % m.group(1), 'vx_map_clusters(%s, closure): the closure applied to every element in order; the closure keeps its text and gets a checked contract' % m.group(1))
                t = t[:m.start()] + 'vx_map_clusters(%s, %s)' % (m.group(1), clo) + t[pc + 1 + tail.end():]
        return t
    # ---- GraphemeCluster::from, the closure of flat_map: the two branches that build the graphemes of one segment (R7 statement slice)
    cl = b.src('cluster.rs')
    gf, _, _ = X.fn(cl, 'from', within=r"^impl<'a> GraphemeCluster<'a> \{")
    k0 = gf.find('if contains_backslash')
    if k0 < 0: raise X.LostAnchor('cluster.rs::GraphemeCluster::from: the `if contains_backslash ..` statement')
    st, _, _ = X.if_else_stmt(gf[k0:], 'if ')
    b.emit('''impl Grapheme {
    // verified in units repeats / rep against these clauses (grapheme_from.one_symbol_once, grapheme_from.flags)
    #[verifier::external_body] pub fn from(s: &str, is_capturing_group_enabled: bool, is_output_colorized: bool, is_verbose_mode_enabled: bool) -> (r: Self)
        ensures plain(r) && r.chars@[0]@ == s@, r.is_capturing_group_enabled == is_capturing_group_enabled && r.is_output_colorized == is_output_colorized && r.is_verbose_mode_enabled == is_verbose_mode_enabled { unimplemented!() }
}
pub open spec fn made_for(g: Grapheme, text: Seq<char>, c: RegExpConfig) -> bool {
    plain(g) && g.chars@[0]@ == text && g.is_capturing_group_enabled == c.is_capturing_group_enabled && g.is_output_colorized == c.is_output_colorized && g.is_verbose_mode_enabled == c.is_verbose_mode_enabled
}
#[verifier::external_body] pub fn vx_char_to_string(c: char) -> (r: String) ensures r@ == seq![c] { unimplemented!() }
// `it.chars().map(closure).collect_vec()`: the closure applied to every code point, in order
#[verifier::external_body] pub fn vx_map_chars<F: Fn(char) -> Grapheme>(s: &str, f: F) -> (r: Vec<Grapheme>)
    requires forall|c: char| f.requires((c,))
    ensures r@.len() == s@.len(), forall|i: int| 0 <= i < s@.len() ==> f.ensures((s@[i],), #[trigger] r@[i]) { unimplemented!() }''')
    def seg_pre(t, log, w):
        m = re.search(r'\bit\.chars\(\)\s*\.map\(', t)
        if not m: raise X.LostAnchor('cluster.rs::GraphemeCluster::from: it.chars().map(..)')
        po = m.end() - 1; pc = L.match_close(t, po)
        tail = re.match(r'\s*\.collect_vec\(\)', t[pc + 1:])
        mm = re.match(r'\|(\w+)\|\s*', t[po + 1:pc].strip())
        if not (tail and mm): raise X.LostAnchor('cluster.rs::GraphemeCluster::from: .map(|c| ..).collect_vec()')
        c = mm.group(1); clo = t[po + 1:pc].strip()
        clo = '|%s: char| -> (vx_g: Grapheme) ensures /*#cluster_from.one_grapheme_per_code_point_with_the_settings#*/ made_for(vx_g, seq![%s], *config) ' % (c, c) + clo[mm.end():]
        log.add('R35', w, 'it.chars().map(closure).collect_vec()', 'vx_map_chars(it, closure): the closure applied to every code point in order; the closure keeps its text and gets a checked contract')
        return t[:m.start()] + 'vx_map_chars(it, %s)' % clo + t[pc + 1 + tail.end():]
    b.slice_fn('segment_graphemes', "pub fn segment_graphemes(it: &str, contains_backslash: bool, contains_combining_mark_or_unassigned_chars: bool, config: &RegExpConfig) -> (r: Vec<Grapheme>)", '    ' + st,
               'cluster.rs::GraphemeCluster::from closure |it| of flat_map: the statement `if contains_backslash || .. { .. } else { .. }`', props=['C07'], pre=seg_pre,
               extra_rules=[('R4', r'&c\.to_string\(\)', '&vx_char_to_string(c)', 'char -> one-char String')],
               clauses=[Clause('cluster_from.unsplit_segment_is_one_plain_grapheme_with_the_settings', '!(contains_backslash || contains_combining_mark_or_unassigned_chars) ==> r@.len() == 1 && made_for(r@[0], it@, *config)', ['C16', 'C06', 'C05']),
                        Clause('cluster_from.split_segment_is_one_plain_grapheme_per_code_point', '(contains_backslash || contains_combining_mark_or_unassigned_chars) ==> r@.len() == it@.len() && forall|i: int| 0 <= i < it@.len() ==> made_for(#[trigger] r@[i], seq![it@[i]], *config)', ['C16', 'C06', 'C01']),
                        Clause('cluster_from.every_grapheme_is_plain', 'all_plain(r@)', ['C16', 'C05', 'C13'])],
               loops={99: [('cluster_from.one_grapheme_per_code_point_with_the_settings', ['C16', 'C06'], 'true')]})
    b.emit("impl<'a> RegExp<'a> {")
    seg = 'segments(test_cases@[k]@, *config)'
    b.verified_fn('regexp.rs', 'grapheme_clusters', within=r"^impl<'a> RegExp<'a> \{", props=['C07'], fname='RegExp::grapheme_clusters', pre=pre,
                  clauses=[Clause('grapheme_clusters.one_cluster_per_test_case_in_order', 'r@.len() == test_cases@.len()', P),
                           Clause('grapheme_clusters.classes_whenever_an_option_is_set', 'class_feature(*config) ==> conversion_runs(*config)', ['C03', 'C16']),
                           Clause('grapheme_clusters.classes_iff_an_option_is_set_and_repetitions_keep_the_symbols',
                                  'forall|k: int| 0 <= k < test_cases@.len() ==> (#[trigger] r@[k]).config == config && (if config.is_repetition_converted { deepflat(r@[k].graphemes@) == deepflat(prepared(test_cases@[k]@, *config)) } else { r@[k].graphemes@ == prepared(test_cases@[k]@, *config) })', P)],
                  loops={1: ['vx_v1@.len() == test_cases@.len()', 'it1.iter.end == vx_v1@.len()', ('grapheme_clusters.conversion_runs@loop1', ['C03', 'C16'], 'conversion_runs(*config)'),
                             ('grapheme_clusters.class_conversion_of_every_cluster@loop1', P, 'forall|k: int| 0 <= k < vx_v1@.len() ==> (#[trigger] vx_v1@[k]).config == config && all_plain(vx_v1@[k].graphemes@) && vx_v1@[k].graphemes@.len() < 0x1_0000_0000 && vx_v1@[k].graphemes@ == (if k < vx_k1 { classes_of(%s, *config) } else { %s })' % (seg, seg))],
                         2: ['vx_v2@.len() == test_cases@.len()', 'it2.iter.end == vx_v2@.len()', ('grapheme_clusters.repetitions_only_on_request@loop2', ['C05', 'C13', 'C16'], 'config.is_repetition_converted'),
                             ('grapheme_clusters.repetition_conversion_keeps_the_symbols@loop2', P, 'forall|k: int| 0 <= k < vx_v2@.len() ==> (#[trigger] vx_v2@[k]).config == config && (if k < vx_k2 { deepflat(vx_v2@[k].graphemes@) == deepflat(prepared(test_cases@[k]@, *config)) } else { vx_v2@[k].graphemes@ == prepared(test_cases@[k]@, *config) && all_plain(vx_v2@[k].graphemes@) && vx_v2@[k].graphemes@.len() < 0x1_0000_0000 })')],
                         99: [('grapheme_clusters.one_cluster_per_test_case', P, 'true')]},
                  blocks=[(1, 'loop_before', '        proof { assert forall|k: int| 0 <= k < vx_v1@.len() implies (#[trigger] vx_v1@[k]).graphemes@ == segments(test_cases@[k]@, *config) && vx_v1@[k].config == config && all_plain(vx_v1@[k].graphemes@) && vx_v1@[k].graphemes@.len() < 0x1_0000_0000 by { } }')])
    b.emit('}')
    b.emit('} // verus!\nfn main() {}')
    b.trusted += ['GraphemeCluster::from (unicode-segmentation, flat_map) is assumed to return plain graphemes (it builds every grapheme with Grapheme::from: verified in unit repeats) -- `segments` uninterpreted, fewer than 2^32 graphemes per test case',
                  'convert_to_char_classes / convert_repetitions / is_char_class_feature_enabled are used through the clauses that units classes / repeats / gates verify',
                  '`.iter().map(closure).collect_vec()` applies the closure to every element in order (vx_map_clusters); the closure keeps its text and is checked against its contract']
    return b


# ---------------------------------------------------------------------------------------------------------------------------------------
def build_cluster_from(repo, spec_dir, canary=False):
    """unit `clusterfrom` (C16-S1, C06): GraphemeCluster::from as a whole function -- every grapheme of the cluster is plain (one element, no quantifier, nothing
    nested) and carries the three settings; the segmentation itself (unicode-segmentation) and the mark/other test are opaque."""
    b = Builder('clusterfrom', repo, canary)
    b.emit('use vstd::prelude::*;\nverus! {')
    b.type_item('config.rs', r'^pub struct RegExpConfig \{')
    b.type_item('grapheme.rs', r'^pub struct Grapheme \{')
    b.type_item('cluster.rs', r"^pub struct GraphemeCluster<'a> \{")
    b.emit(open(spec_dir + '/splice.rs').read())
    b.emit(open(spec_dir + '/repeats.rs').read())
    b.emit('''impl Grapheme {
    // verified in units repeats / rep against these clauses (grapheme_from.one_symbol_once, grapheme_from.flags)
    #[verifier::external_body] pub fn from(s: &str, is_capturing_group_enabled: bool, is_output_colorized: bool, is_verbose_mode_enabled: bool) -> (r: Self)
        ensures plain(r) && r.chars@[0]@ == s@, r.is_capturing_group_enabled == is_capturing_group_enabled && r.is_output_colorized == is_output_colorized && r.is_verbose_mode_enabled == is_verbose_mode_enabled { unimplemented!() }
}
pub open spec fn made_for(g: Grapheme, text: Seq<char>, c: RegExpConfig) -> bool {
    plain(g) && g.chars@[0]@ == text && g.is_capturing_group_enabled == c.is_capturing_group_enabled && g.is_output_colorized == c.is_output_colorized && g.is_verbose_mode_enabled == c.is_verbose_mode_enabled
}
#[verifier::external_body] pub fn vx_char_to_string(c: char) -> (r: String) ensures r@ == seq![c] { unimplemented!() }
#[verifier::external_body] pub fn vx_map_chars<F: Fn(char) -> Grapheme>(s: &str, f: F) -> (r: Vec<Grapheme>)
    requires forall|c: char| f.requires((c,))
    ensures r@.len() == s@.len(), forall|i: int| 0 <= i < s@.len() ==> f.ensures((s@[i],), #[trigger] r@[i]) { unimplemented!() }''')
    def seg_pre(t, log, w):
        m = re.search(r'\bit\.chars\(\)\s*\.map\(', t)
        if not m: raise X.LostAnchor('cluster.rs::GraphemeCluster::from: it.chars().map(..)')
        po = m.end() - 1; pc = L.match_close(t, po)
        tail = re.match(r'\s*\.collect_vec\(\)', t[pc + 1:])
        mm = re.match(r'\|(\w+)\|\s*', t[po + 1:pc].strip())
        if not (tail and mm): raise X.LostAnchor('cluster.rs::GraphemeCluster::from: .map(|c| ..).collect_vec()')
        c = mm.group(1); clo = t[po + 1:pc].strip()
        clo = '|%s: char| -> (vx_g: Grapheme) ensures /*#cluster_from.one_grapheme_per_code_point_with_the_settings#*/ made_for(vx_g, seq![%s], *config) ' % (c, c) + clo[mm.end():]
        log.add('R35', w, 'it.chars().map(closure).collect_vec()', 'vx_map_chars(it, closure): the closure applied to every code point in order; the closure keeps its text and gets a checked contract')
        return t[:m.start()] + 'vx_map_chars(it, %s)' % clo + t[pc + 1 + tail.end():]
    # ---- GraphemeCluster::from as a whole function: segmentation (opaque) + flat_map(closure) + collect; the closure keeps its text and gets a checked contract
    b.emit('''pub open spec fn all_made_for(v: Seq<Grapheme>, c: RegExpConfig) -> bool { forall|k: int| 0 <= k < v.len() ==> plain(#[trigger] v[k]) && v[k].is_capturing_group_enabled == c.is_capturing_group_enabled && v[k].is_output_colorized == c.is_output_colorized && v[k].is_verbose_mode_enabled == c.is_verbose_mode_enabled }
pub open spec fn concat_parts(parts: Seq<Vec<Grapheme>>, n: int) -> Seq<Grapheme> decreases n { if n <= 0 { Seq::empty() } else { concat_parts(parts, n - 1) + parts[n - 1]@ } }
pub proof fn lemma_concat_all_made_for(parts: Seq<Vec<Grapheme>>, n: int, c: RegExpConfig)
    requires 0 <= n <= parts.len(), forall|i: int| 0 <= i < parts.len() ==> all_made_for((#[trigger] parts[i])@, c)
    ensures all_made_for(concat_parts(parts, n), c)
    decreases n
{
    if n > 0 {
        lemma_concat_all_made_for(parts, n - 1, c);
        let a = concat_parts(parts, n - 1); let z = parts[n - 1]@;
        assert(all_made_for(z, c));
        assert forall|k: int| 0 <= k < (a + z).len() implies plain(#[trigger] (a + z)[k]) && (a + z)[k].is_capturing_group_enabled == c.is_capturing_group_enabled && (a + z)[k].is_output_colorized == c.is_output_colorized && (a + z)[k].is_verbose_mode_enabled == c.is_verbose_mode_enabled by {
            if k < a.len() { assert((a + z)[k] == a[k]); } else { assert((a + z)[k] == z[k - a.len()]); }
        }
    }
}
// unicode-segmentation: the extended grapheme clusters of s, in order (opaque)
#[verifier::external_body] pub fn vx_grapheme_segments<'s>(s: &'s str) -> (r: Vec<&'s str>) { unimplemented!() }
// `.flat_map(closure).collect_vec()`: the closure's results for every segment, concatenated in order
#[verifier::external_body] pub fn vx_flat_map_collect<'s, F: Fn(&'s str) -> Vec<Grapheme>>(v: &Vec<&'s str>, f: F) -> (r: Vec<Grapheme>)
    requires forall|i: int| 0 <= i < v@.len() ==> f.requires((#[trigger] v@[i],))
    ensures exists|parts: Seq<Vec<Grapheme>>| parts.len() == v@.len() && (forall|i: int| 0 <= i < v@.len() ==> f.ensures((v@[i],), #[trigger] parts[i])) && r@ == #[trigger] concat_parts(parts, parts.len() as int) { unimplemented!() }
// `it.chars().any(|c| { category of c is a mark or "other" })`: the closure is verified in unit split (cluster_split.every_mark_and_other_category_splits); its answer is opaque here
pub uninterp spec fn has_mark_or_other(s: Seq<char>) -> bool;
#[verifier::external_body] pub fn vx_has_mark_or_other(s: &str) -> (r: bool) ensures r == has_mark_or_other(s@) { unimplemented!() }
#[verifier::external_body] pub fn vx_char_count(s: &str) -> (r: usize) ensures r == s@.len() { unimplemented!() }
#[verifier::external_body] pub fn vx_str_contains_char(s: &str, c: char) -> (r: bool) ensures r == s@.contains(c) { unimplemented!() }''')
    def from_pre(t, log, w):
        t = seg_pre(t, log, w)
        m = re.search(r'UnicodeSegmentation::graphemes\(s, true\)\s*\.flat_map\(', t)
        if not m: raise X.LostAnchor('cluster.rs::GraphemeCluster::from: UnicodeSegmentation::graphemes(s, true).flat_map(..)')
        po = m.end() - 1; pc = L.match_close(t, po)
        tail = re.match(r'\s*\.collect_vec\(\)', t[pc + 1:])
        mm = re.match(r'\|(\w+)\|\s*', t[po + 1:pc].strip())
        if not (tail and mm): raise X.LostAnchor('cluster.rs::GraphemeCluster::from: .flat_map(|it| ..).collect_vec()')
        it = mm.group(1); clo = t[po + 1:pc].strip()
        clo = '|%s: &str| -> (vx_p: Vec<Grapheme>) ensures /*#cluster_from.every_segment_becomes_plain_graphemes_with_the_settings#*/ all_made_for(vx_p@, *config) ' % it + clo[mm.end():]
        log.add('R35', w, 'UnicodeSegmentation::graphemes(s, true).flat_map(closure).collect_vec()', 'vx_flat_map_collect(&vx_grapheme_segments(s), closure): the closure applied to every segment in order, results concatenated; the closure keeps its text and gets a checked contract')
        # R29: the segments, the closure and the collected graphemes get names (ghost code refers to them); the struct literal then uses the name
        k = t.rfind('Self {', 0, m.start())
        if k < 0: raise X.LostAnchor('cluster.rs::GraphemeCluster::from: Self { .. }')
        ls = t.rfind('\n', 0, k) + 1
        ind = re.match(r'[ \t]*', t[ls:]).group(0)
        lets = '%slet vx_segs = vx_grapheme_segments(s);\n%slet vx_f = %s;\n%slet vx_gs = vx_flat_map_collect(&vx_segs, vx_f);\n' % (ind, ind, clo, ind)
        log.add('R29', w, 'Self { graphemes: EXPR, .. }', 'let vx_segs = ..; let vx_f = CLOSURE; let vx_gs = vx_flat_map_collect(&vx_segs, vx_f); Self { graphemes: vx_gs, .. }')
        t = t[:ls] + lets + t[ls:m.start()] + 'vx_gs' + t[pc + 1 + tail.end():]
        # the mark/other test: one stand-in for the whole `it.chars().any(|c| {..})` expression (its closure is verified in unit split)
        m2 = re.search(r'\bit\.chars\(\)\.any\(', t)
        if not m2: raise X.LostAnchor('cluster.rs::GraphemeCluster::from: it.chars().any(..)')
        po2 = m2.end() - 1; pc2 = L.match_close(t, po2)
        log.add('R19', w, 'it.chars().any(closure) [mark / other category]', 'vx_has_mark_or_other(it) (uninterpreted; closure verified in unit split)')
        t = t[:m2.start()] + 'vx_has_mark_or_other(it)' + t[pc2 + 1:]
        return t
    b.emit("impl<'a> GraphemeCluster<'a> {")
    b.verified_fn('cluster.rs', 'from', within=r"^impl<'a> GraphemeCluster<'a> \{", props=['C07'], fname='GraphemeCluster::from', pre=from_pre,
                  extra_rules=[('R4', r'&c\.to_string\(\)', '&vx_char_to_string(c)', 'char -> one-char String'),
                               ('R5', r'\bit\.chars\(\)\.count\(\)', 'vx_char_count(it)', 'chars().count()'),
                               ('R12', r"\bit\.contains\(('(?:\\.|[^'\\])')\)", r'vx_str_contains_char(it, \1)', 'str::contains(char)')],
                  clauses=[Clause('cluster_from.every_grapheme_is_plain_and_carries_the_settings', 'all_made_for(r.graphemes@, *config)', ['C16', 'C06', 'C05', 'C13']),
                           Clause('cluster_from.every_grapheme_is_plain', 'all_plain(r.graphemes@)', ['C16', 'C05', 'C13']),
                           Clause('cluster_from.keeps_the_settings', 'r.config == config', ['C10', 'C16'])],
                  loops={98: [('cluster_from.every_segment_becomes_plain_graphemes_with_the_settings', ['C16', 'C06'], 'true')], 99: [('cluster_from.one_grapheme_per_code_point_with_the_settings', ['C16', 'C06'], 'true')]},
                  blocks=[('Self {', 'before', '''        proof {
            let parts = choose|parts: Seq<Vec<Grapheme>>| parts.len() == vx_segs@.len() && (forall|i: int| 0 <= i < vx_segs@.len() ==> vx_f.ensures((vx_segs@[i],), #[trigger] parts[i])) && vx_gs@ == #[trigger] concat_parts(parts, parts.len() as int);
            lemma_concat_all_made_for(parts, parts.len() as int, *config);
        }''', ('cluster_from.every_grapheme_is_plain_and_carries_the_settings', ['C16', 'C06', 'C05', 'C13']))])
    b.emit('}')
    b.emit('} // verus!\nfn main() {}')
    b.trusted += ['unicode-segmentation is opaque (vx_grapheme_segments: some list of segments); `.flat_map(closure).collect_vec()` concatenates the closure\'s results for every segment in order (vx_flat_map_collect; the closure keeps its text and is checked against its contract); the mark/other test `it.chars().any(..)` is one uninterpreted stand-in (its closure is verified in unit split)',
                  'Grapheme::from is used through the clauses units repeats / rep verify (compared on every run: vx/crosscheck.py)']
    return b
