"""Unit registry: which assembled Verus files exist and which properties each carries."""
from units import expr, builder, smallslices, tables, dfa, bindings, elim, regexp, render, fmtunit, nested, minimize, indent, charcount, repeats, charclass, atom, classes

REGISTRY = {
    'expr':     lambda repo, sd, canary=False: expr.build(repo, sd, canary=canary),
    'builder':  lambda repo, sd, canary=False: builder.build(repo, sd, canary=canary),
    'classify': lambda repo, sd, canary=False: smallslices.build_classify(repo, sd, canary=canary),
    'escape':   lambda repo, sd, canary=False: smallslices.build_escape(repo, sd, canary=canary),
    'caseconv': lambda repo, sd, canary=False: smallslices.build_caseconv(repo, sd, canary=canary),
    'split':    lambda repo, sd, canary=False: smallslices.build_split(repo, sd, canary=canary),
    'rep':      lambda repo, sd, canary=False: smallslices.build_rep(repo, sd, canary=canary),
    'order':    lambda repo, sd, canary=False: smallslices.build_order(repo, sd, canary=canary),
    'splice':   lambda repo, sd, canary=False: smallslices.build_splice(repo, sd, canary=canary),
    'escaper':  lambda repo, sd, canary=False: smallslices.build_escaper(repo, sd, canary=canary),
    'gates':    lambda repo, sd, canary=False: smallslices.build_gates(repo, sd, canary=canary),
    'tables':   lambda repo, sd, canary=False: tables.build(repo, sd, canary=canary),
    'dfa':      lambda repo, sd, canary=False: dfa.build(repo, sd, kf=False, canary=canary),
    'dfa_kf':   lambda repo, sd, canary=False: dfa.build(repo, sd, kf=True, canary=canary),
    'elim':     lambda repo, sd, canary=False: elim.build(repo, sd, canary=canary),
    'regexp':   lambda repo, sd, canary=False: regexp.build(repo, sd, canary=canary),
    'render':   lambda repo, sd, canary=False: render.build(repo, sd, canary=canary),
    'format':   lambda repo, sd, canary=False: fmtunit.build(repo, sd, canary=canary),
    'matrix':   lambda repo, sd, canary=False: elim.build_matrix(repo, sd, canary=canary),
    'nested':   lambda repo, sd, canary=False: nested.build(repo, sd, canary=canary),
    'minimize': lambda repo, sd, canary=False: minimize.build(repo, sd, canary=canary),
    'indent':   lambda repo, sd, canary=False: indent.build(repo, sd, canary=canary),
    'charcount': lambda repo, sd, canary=False: charcount.build(repo, sd, canary=canary),
    'repeats':  lambda repo, sd, canary=False: repeats.build(repo, sd, canary=canary),
    'charclass': lambda repo, sd, canary=False: charclass.build(repo, sd, canary=canary),
    'atom':     lambda repo, sd, canary=False: atom.build(repo, sd, canary=canary),
    'classes':  lambda repo, sd, canary=False: classes.build(repo, sd, canary=canary),
    'stage1':   lambda repo, sd, canary=False: classes.build_stage1(repo, sd, canary=canary),
    'exprfrom': lambda repo, sd, canary=False: elim.build_whole(repo, sd, canary=canary),
    'clusterfrom': lambda repo, sd, canary=False: classes.build_cluster_from(repo, sd, canary=canary),
    'dispatch': lambda repo, sd, canary=False: fmtunit.build_dispatch(repo, sd, canary=canary),
    'trie':     lambda repo, sd, canary=False: dfa.build_trie(repo, sd, canary=canary),
    'wasm':     lambda repo, sd, canary=False: bindings.build_wasm(repo, sd, canary=canary),
    'python':   lambda repo, sd, canary=False: bindings.build_python(repo, sd, canary=canary),
    'cli':      lambda repo, sd, canary=False: bindings.build_cli(repo, sd, canary=canary),
}
# units whose obligations carry a property (an obligation counts for a property only if its clause is tagged with it)
PROP_UNITS = {
    'C01': ['expr', 'elim', 'matrix', 'regexp', 'caseconv', 'split', 'escaper', 'rep', 'dfa', 'dfa_kf', 'trie', 'render', 'format', 'nested', 'charcount', 'minimize', 'atom', 'exprfrom'],
    'C02': ['expr', 'elim', 'matrix', 'regexp', 'dfa', 'minimize', 'gates', 'render', 'format', 'charcount', 'charclass', 'exprfrom'],
    'C03': ['classify', 'gates', 'trie', 'atom', 'classes', 'stage1'],
    'C04': ['caseconv', 'regexp', 'render', 'builder'],
    'C05': ['trie', 'render', 'rep', 'splice', 'repeats', 'charcount', 'minimize', 'atom', 'stage1', 'clusterfrom'],
    'C06': ['render', 'format', 'trie', 'rep', 'nested', 'indent', 'clusterfrom', 'dispatch', 'expr'],
    'C07': ['expr', 'elim', 'matrix', 'regexp', 'builder', 'split', 'escaper', 'caseconv', 'rep', 'splice', 'gates', 'render', 'format', 'order', 'dfa', 'minimize', 'trie', 'cli', 'escape', 'classify', 'nested', 'indent', 'charcount', 'repeats', 'charclass', 'atom', 'classes', 'stage1', 'exprfrom', 'clusterfrom', 'dispatch'],
    'C08': ['render', 'expr', 'regexp', 'format', 'indent'],
    'C09': ['tables', 'classify', 'classes'],
    'C10': ['builder', 'regexp', 'gates', 'order', 'dfa'],
    'C11': ['escape', 'builder', 'format', 'nested', 'split', 'dispatch', 'expr'],
    'C12': ['cli', 'gates', 'builder'],
    'C13': ['rep', 'splice', 'repeats', 'builder', 'render', 'trie', 'atom', 'stage1', 'clusterfrom'],
    'C14': ['python'],
    'C15': ['render', 'indent', 'dispatch', 'expr'],
    'C16': ['expr', 'elim', 'matrix', 'regexp', 'dfa', 'dfa_kf', 'minimize', 'trie', 'render', 'format', 'charcount', 'repeats', 'charclass', 'stage1', 'exprfrom', 'clusterfrom'],
    'C17': ['wasm'],
}
# dfa_kf holds exactly the known-finding clause (its canary would be redundant with dfa's); tables has no function with a context
NO_CANARY = {'dfa_kf', 'tables'}
# what each check does NOT decide (copied into the evidence file on every run)
PROP_NOTES = {}
