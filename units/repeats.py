"""unit `repeats`: conversion of repeated substrings is a notation change (C05), thresholds (C13), stage S1 of C16.

Real text under contract (whole functions, cluster.rs / grapheme.rs):
  Grapheme::from, Grapheme::new
  replace_graphemes_with_repetitions     all three loops: copy, splice (descending ranges), recursion into the units
  convert_repetitions (free function)    the composition detection -> splice; mutually recursive with the function above: termination is PROVED
                                          (measure: the number of graphemes; a unit is at most half as long as the list it was found in)
  GraphemeCluster::convert_repetitions   the result replaces the cluster's graphemes only if it is not empty
The detection stage (collect_repeated_substrings, create_ranges_of_repetitions, coalesce_repetitions: itertools chains) is ASSUMED to deliver `detection_ok`.
"""
import re
from vx.assemble import Builder, Clause
from vx import extract as X, dialect as D

SPEC = r"""
pub assume_specification [<Grapheme as Clone>::clone] (e: &Grapheme) -> (r: Grapheme) ensures r == *e;
pub assume_specification [<RegExpConfig as Clone>::clone] (e: &RegExpConfig) -> (r: RegExpConfig) ensures r == *e;
// Vec::splice(range, one element) dropped at once: the range is replaced by that element (std); specified exactly
#[verifier::external_body] pub fn vx_splice_one(v: &mut Vec<Grapheme>, range: core::ops::Range<usize>, g: Grapheme)
    requires range.start <= range.end <= old(v)@.len()
    ensures final(v)@ == old(v)@.subrange(0, range.start as int).push(g) + old(v)@.subrange(range.end as int, old(v)@.len() as int) { unimplemented!() }
pub assume_specification<Idx: Clone> [<core::ops::Range<Idx> as Clone>::clone] (e: &core::ops::Range<Idx>) -> (r: core::ops::Range<Idx>) ensures r == *e;
// `chars.iter().map(closure).collect_vec()`: the closure applied to every element, in order
#[verifier::external_body] pub fn vx_map_strings<F: Fn(&String) -> Grapheme>(v: &Vec<String>, f: F) -> (r: Vec<Grapheme>)
    requires forall|i: int| 0 <= i < v@.len() ==> f.requires((&#[trigger] v@[i],))
    ensures r@.len() == v@.len(), forall|i: int| 0 <= i < v@.len() ==> f.ensures((&v@[i],), #[trigger] r@[i]) { unimplemented!() }
"""

DETECTION = r"""
// What the (unverified) detection stage must deliver -- ASSUMED, named so that the evidence lists it:
//  every range lies inside the input, and the input graphemes in the range stand for the unit repeated (end - start) / unit length times;
//  a unit is at most half as long as the input (collect_repeated_substrings: `for j in 1..=graphemes.len() / 2`);
//  the ranges come in descending order and do not overlap (so splicing one of them leaves the positions of all later ones untouched);
//  the input is shorter than 2^32 graphemes (the count is cast to u32); every count exceeds the configured minimum of repetitions.
pub open spec fn spells(c: (Range<usize>, Vec<String>), gs: Seq<Grapheme>, min_rep: u32) -> bool {
    c.0.start <= c.0.end <= gs.len() && c.1@.len() > 0 && 2 * c.1@.len() <= gs.len()
    && (c.0.end - c.0.start) / (c.1@.len() as int) > min_rep          // create_ranges_of_repetitions keeps a range only if its count exceeds the minimum (closure verified in unit rep: rep_filter.strict)
    && flat(gs.subrange(c.0.start as int, c.0.end as int)) == rep(views(c.1@), ((c.0.end - c.0.start) / (c.1@.len() as int)) as nat)
}
pub open spec fn detection_ok(c: Seq<(Range<usize>, Vec<String>)>, gs: Seq<Grapheme>, min_rep: u32) -> bool {
    &&& gs.len() < 0x1_0000_0000
    &&& forall|k: int| 0 <= k < c.len() ==> spells(#[trigger] c[k], gs, min_rep)
    &&& forall|k: int, l: int| 0 <= k < l < c.len() ==> (#[trigger] c[l]).0.end <= (#[trigger] c[k]).0.start
}
pub open spec fn untouched_below(c: Seq<(Range<usize>, Vec<String>)>, done: int, gs: Seq<Grapheme>) -> int {
    if done == 0 { gs.len() as int } else { c[done - 1].0.start as int }
}
// every element is short enough for the recursion to end: nothing nested yet, and at most half as many symbols as the input has graphemes
pub open spec fn small(g: Grapheme, n: nat) -> bool { g.repetitions@.len() == 0 && 2 * g.chars@.len() <= n }
pub open spec fn all_small(v: Seq<Grapheme>, n: nat) -> bool { forall|k: int| 0 <= k < v.len() ==> small(#[trigger] v[k], n) }
// the three stages of the detection are opaque; only their composition is constrained
pub uninterp spec fn collected_from(m: HashMap<Vec<String>, Vec<usize>>, gs: Seq<Grapheme>) -> bool;
pub uninterp spec fn ranges_from(r: Seq<(Range<usize>, Vec<String>)>, gs: Seq<Grapheme>, min_rep: u32) -> bool;
#[verifier::external_body] pub fn collect_repeated_substrings(graphemes: &[Grapheme]) -> (r: HashMap<Vec<String>, Vec<usize>>)
    ensures collected_from(r, graphemes@) { unimplemented!() }
#[verifier::external_body] pub fn create_ranges_of_repetitions(repeated_substrings: HashMap<Vec<String>, Vec<usize>>, config: &RegExpConfig) -> (r: Vec<(Range<usize>, Vec<String>)>)
    ensures forall|gs: Seq<Grapheme>| #[trigger] collected_from(repeated_substrings, gs) ==> ranges_from(r@, gs, config.minimum_repetitions) { unimplemented!() }
#[verifier::external_body] pub fn coalesce_repetitions(ranges_of_repetitions: Vec<(Range<usize>, Vec<String>)>) -> (r: Vec<(Range<usize>, Vec<String>)>)
    ensures forall|gs: Seq<Grapheme>, m: u32| #[trigger] ranges_from(ranges_of_repetitions@, gs, m) && all_plain(gs) && gs.len() < 0x1_0000_0000 ==> detection_ok(r@, gs, m) { unimplemented!() }
"""

SPLICE_RULE = ('R19', r'repetitions\.splice\(\s*range\.clone\(\),\s*\[(Grapheme::new\((?:[^()]|\([^()]*\))*\))\]\s*\.iter\(\)\s*\.cloned\(\),\s*\);', r'vx_splice_one(repetitions, range.clone(), \1);', 'Vec::splice(range, [g].iter().cloned()) dropped at once')
P = ['C05', 'C16']

def _pre_replace(t, log, w):
    t = D.desugar_continue(t, log, w)
    t = D.desugar_iter_mut(t, log, w)
    t2 = t.replace('let vx_v1 = &mut repetitions;', 'let vx_v1 = &mut *repetitions;')
    if t2 != t: log.add('R24', w, '`repetitions` is a `&mut Vec` parameter', 'reborrowed (`&mut *repetitions`) instead of borrowed')
    t = t2
    # R34: `X.as_mut()` on a Vec place ⇒ `&mut X` (AsMut<Vec<T>> for Vec<T> is the identity)
    t2 = re.sub(r'\b([\w.]+)\.as_mut\(\)', r'&mut \1', t)
    if t2 != t: log.add('R34', w, 'VEC.as_mut()', '&mut VEC (AsMut<Vec<T>> for Vec<T> returns self)')
    t = t2
    # R35: `V.iter().map(CLOSURE).collect_vec()` on a Vec<String> ⇒ vx_map_strings(&V, CLOSURE)
    m = re.search(r'((?:\w+\s*\.\s*)*\w+)\s*\.iter\(\)\s*\.map\(', t)
    if m:
        recv = re.sub(r'\s+', '', m.group(1))
        from vx import rustlex as L
        po = m.end() - 1; pc = L.match_close(t, po)
        tail = re.match(r'\s*\.collect_vec\(\)', t[pc + 1:])
        if tail:
            # the closure keeps its text; its parameter type is written out and it gets a contract (R1) that Verus checks against its body
            clo = re.sub(r'^\|(\w+)\|\s*', r'|\1: &String| -> (vx_r: Grapheme) ensures /*#replace.nested_units_are_rebuilt_from_plain_graphemes#*/ plain(vx_r) && vx_r.chars@[0]@ == \1@ ', t[po + 1:pc].strip())
            log.add('R35', w, '%s.iter().map(closure).collect_vec()' % recv, 'vx_map_strings(&%s, closure): the closure applied to every element, in order (parameter type written out)' % recv)
            t = t[:m.start()] + 'vx_map_strings(&%s, %s)' % (recv, clo) + t[pc + 1 + tail.end():]
            # R29: the first argument of the recursive call gets a name (ghost code refers to it)
            k = t.rfind('convert_repetitions(', 0, m.start())
            if k >= 0 and re.fullmatch(r'convert_repetitions\(\s*&\s*', t[k:m.start()]):
                e = m.start() + len('vx_map_strings(&%s, %s)' % (recv, clo))
                ls = t.rfind('\n', 0, k) + 1
                ind = re.match(r'[ \t]*', t[ls:]).group(0)
                log.add('R29', w, 'convert_repetitions(&ARG, ..)', 'let vx_arg = ARG; convert_repetitions(&vx_arg, ..)')
                t = t[:ls] + ind + 'let vx_arg = ' + t[m.start():e] + ';\n' + t[ls:k] + 'convert_repetitions(&vx_arg' + t[e:]
    return t

def build(repo, spec_dir, canary=False):
    b = Builder('repeats', repo, canary)
    b.emit('use vstd::prelude::*;\nuse std::ops::Range;\nuse std::collections::HashMap;\nverus! {')
    b.type_item('config.rs', r'^pub struct RegExpConfig \{')
    b.type_item('grapheme.rs', r'^pub struct Grapheme \{')
    b.type_item('cluster.rs', r"^pub struct GraphemeCluster<'a> \{")
    b.emit(SPEC)
    b.emit(open(spec_dir + '/splice.rs').read())
    b.emit(open(spec_dir + '/repeats.rs').read())
    b.emit(DETECTION)
    G = r'^impl Grapheme \{'
    b.emit('impl Grapheme {')
    b.verified_fn('grapheme.rs', 'from', within=G, props=['C07'], fname='Grapheme::from',
                  clauses=[Clause('grapheme_from.one_symbol_once', 'plain(r) && r.chars@[0]@ == s@', ['C05', 'C13', 'C16'])],
                  extra_rules=[('R4', r'\bs\.to_string\(\)', 'vx_str_to_string(s)', '&str -> String')])
    b.verified_fn('grapheme.rs', 'new', within=G, props=['C07'], fname='Grapheme::new',
                  clauses=[Clause('grapheme.new', 'r.chars == chars && r.min == min && r.max == max && r.repetitions@.len() == 0', ['C13', 'C05'])])
    b.emit('}')
    b.emit('#[verifier::external_body] pub fn vx_str_to_string(s: &str) -> (r: String) ensures r@ == s@ { unimplemented!() }')
    det = 'detection_ok(coalesced_repetitions@, graphemes@, config.minimum_repetitions)'
    below = 'untouched_below(coalesced_repetitions@, it2.index@, graphemes@)'
    b.verified_fn('cluster.rs', 'replace_graphemes_with_repetitions', props=['C07'], pre=_pre_replace, extra_rules=[SPLICE_RULE],
                  requires=['old(repetitions)@.len() == 0', det, 'all_plain(graphemes@)'], decreases='graphemes@.len(), 0nat',
                  clauses=[Clause('replace.stands_for_the_same_symbols', 'coalesced_repetitions@.len() > 0 ==> deepflat(final(repetitions)@) == flat(graphemes@)', P),
                           Clause('replace.every_unit_respects_the_thresholds_at_every_depth', 'all_deep_ok(final(repetitions)@, *config)', ['C13']),
                           Clause('replace.nothing_detected_leaves_the_output_empty', 'coalesced_repetitions@.len() == 0 ==> final(repetitions)@.len() == 0', ['C05'])],
                  loops={1: ['it1.seq().len() == graphemes@.len()', 'forall|k: int| 0 <= k < it1.seq().len() ==> *#[trigger] it1.seq()[k] == graphemes@[k]',
                             ('replace.copies_input@loop1', P, 'repetitions@.len() == it1.index@ && forall|k: int| 0 <= k < repetitions@.len() ==> #[trigger] repetitions@[k] == graphemes@[k]')],
                         2: [det, 'all_plain(graphemes@)', 'coalesced_repetitions@.len() > 0', 'graphemes@.len() >= 2', 'it2.seq().len() == coalesced_repetitions@.len()', 'forall|k: int| 0 <= k < it2.seq().len() ==> *#[trigger] it2.seq()[k] == coalesced_repetitions@[k]',
                             ('replace.stands_for_the_same_symbols@loop2', P, 'flat(repetitions@) == flat(graphemes@)'),
                             ('replace.earlier_positions_untouched@loop2', P, '%s <= repetitions@.len() && forall|j: int| 0 <= j < %s ==> #[trigger] repetitions@[j] == graphemes@[j]' % (below, below)),
                             ('replace.units_are_short_and_not_nested@loop2', P + ['C07'], 'all_small(repetitions@, graphemes@.len())'),
                             ('replace.every_unit_respects_the_thresholds@loop2', ['C13'], 'forall|k: int| 0 <= k < repetitions@.len() ==> printed_once(#[trigger] repetitions@[k]) || unit_ok(repetitions@[k], *config)')],
                         3: ['vx_v1@.len() == vx_r2.len()', 'it3.iter.end == vx_v1@.len()', 'graphemes@.len() < 0x1_0000_0000', 'graphemes@.len() >= 2',
                             ('replace.nested_units_keep_their_symbols@loop3', P, 'forall|j: int| 0 <= j < vx_v1@.len() ==> deep(#[trigger] vx_v1@[j]) == deep(vx_r2[j])'),
                             ('replace.every_unit_respects_the_thresholds_at_every_depth@loop3', ['C13'], '(forall|j: int| 0 <= j < vx_k1 ==> deep_ok(#[trigger] vx_v1@[j], *config)) && (forall|j: int| vx_k1 <= j < vx_v1@.len() ==> printed_once(#[trigger] vx_v1@[j]) || unit_ok(vx_v1@[j], *config))'),
                             ('replace.units_are_short_and_not_nested@loop3', P + ['C07'], 'forall|j: int| vx_k1 <= j < vx_v1@.len() ==> small(#[trigger] vx_v1@[j], graphemes@.len())')],
                         99: [('replace.nested_units_are_rebuilt_from_plain_graphemes', P, 'true')]},
                  blocks=[(1, 'loop_after', '''    proof { assert(repetitions@ =~= graphemes@);
        assert(spells(coalesced_repetitions@[0], graphemes@, config.minimum_repetitions));
        assert forall|k: int| 0 <= k < repetitions@.len() implies small(#[trigger] repetitions@[k], graphemes@.len()) by { assert(plain(graphemes@[k])); }
        assert forall|k: int| 0 <= k < repetitions@.len() implies printed_once(#[trigger] repetitions@[k]) by { assert(plain(graphemes@[k])); } }'''),
                          (2, 'loop_start', '''        let ghost r0 = repetitions@; let ghost kk = it2.index@;
        proof { assert(*it2.seq()[kk] == coalesced_repetitions@[kk]); assert(spells(coalesced_repetitions@[kk], graphemes@, config.minimum_repetitions));
                if kk > 0 { assert(coalesced_repetitions@[kk].0.end <= coalesced_repetitions@[kk - 1].0.start); } }'''),
                          (2, 'loop_end', '''        proof {
            let s = range.start as int; let e = range.end as int;
            if repetitions@ != r0 {
                let u = repetitions@[s];
                assert(r0.subrange(s, e) =~= graphemes@.subrange(s, e));
                assert(views(u.chars@) =~= views(substr@));
                lemma_splice_keeps_flat(r0, s, e, u, repetitions@);
                assert forall|k: int| 0 <= k < repetitions@.len() implies small(#[trigger] repetitions@[k], graphemes@.len()) by {
                    if k < s { assert(repetitions@[k] == r0[k]); } else if k == s { } else { assert(repetitions@[k] == r0[k - s - 1 + e]); }
                }
            }
            assert forall|j: int| 0 <= j < s implies #[trigger] repetitions@[j] == graphemes@[j] by { assert(repetitions@[j] == r0[j]); }
        }''', ('replace.stands_for_the_same_symbols@loop2', P)),
                          (2, 'loop_end', '''        proof {
            let s = range.start as int; let e = range.end as int;
            if repetitions@ != r0 {
                assert forall|k: int| 0 <= k < repetitions@.len() implies printed_once(#[trigger] repetitions@[k]) || unit_ok(repetitions@[k], *config) by {
                    if k < s { assert(repetitions@[k] == r0[k]); } else if k == s { } else { assert(repetitions@[k] == r0[k - s - 1 + e]); }
                }
            }
        }''', ('replace.every_unit_respects_the_thresholds@loop2', ['C13'])),
                          (2, 'loop_after', '''    let ghost vx_r2 = repetitions@;
    proof { lemma_flat_is_deepflat(vx_r2); }'''),
                          (3, 'loop_start', '''        let ghost vx_g0 = vx_v1@[vx_k1 as int];
        proof { assert(small(vx_g0, graphemes@.len())); }'''),
                          (3, 'loop_end', '''        proof {
            let g1 = vx_v1@[vx_k1 as int];
            if g1.repetitions@.len() > 0 { lemma_flat_of_plain(vx_arg@); assert(deep_upto(g1.repetitions@, g1.repetitions@.len()) =~= views(g1.chars@)); }
        }''', ('replace.nested_units_keep_their_symbols@loop3', P)),
                          (3, 'loop_after', '    proof { lemma_deep_upto_pointwise(repetitions@, vx_r2, vx_r2.len()); }')])
    b.verified_fn('cluster.rs', 'convert_repetitions', within=r'^fn convert_repetitions\(', props=['C07'], pre=_pre_replace,
                  requires=['old(repetitions)@.len() == 0', 'all_plain(graphemes@)', 'graphemes@.len() < 0x1_0000_0000'], decreases='graphemes@.len(), 1nat',
                  clauses=[Clause('convert.empty_or_the_same_symbols', 'final(repetitions)@.len() == 0 || deepflat(final(repetitions)@) == flat(graphemes@)', P),
                           Clause('convert.every_unit_respects_the_thresholds_at_every_depth', 'all_deep_ok(final(repetitions)@, *config)', ['C13'])])
    b.emit("impl<'a> GraphemeCluster<'a> {")
    CL = r"^impl<'a> GraphemeCluster<'a> \{"
    b.verified_fn('cluster.rs', 'graphemes', within=CL, props=['C07'], fname='GraphemeCluster::graphemes', clauses=[Clause('cluster.graphemes', '*r == self.graphemes', P)])
    b.verified_fn('cluster.rs', 'convert_repetitions', within=CL, props=['C07'], fname='GraphemeCluster::convert_repetitions', pre=_pre_replace,
                  requires=['all_plain(old(self).graphemes@)', 'old(self).graphemes@.len() < 0x1_0000_0000'],
                  clauses=[Clause('cluster_convert.stands_for_the_same_symbols', 'deepflat(final(self).graphemes@) == deepflat(old(self).graphemes@)', P),
                           Clause('cluster_convert.every_unit_respects_the_thresholds_at_every_depth', 'all_deep_ok(final(self).graphemes@, *final(self).config)', ['C13']),
                           Clause('cluster_convert.config_kept', 'final(self).config == old(self).config', ['C05', 'C10'])],
                  blocks=[(None, 'fn_end', '    proof { assert(no_nesting(old(self).graphemes@)) by { assert forall|k: int| 0 <= k < old(self).graphemes@.len() implies (#[trigger] old(self).graphemes@[k]).repetitions@.len() == 0 by { assert(plain(old(self).graphemes@[k])); } }; lemma_flat_is_deepflat(old(self).graphemes@); }')])
    b.emit('}')
    b.emit('} // verus!\nimpl Clone for Grapheme { fn clone(&self) -> Self { unimplemented!() } }\nimpl Clone for RegExpConfig { fn clone(&self) -> Self { unimplemented!() } }\nfn main() {}')
    b.trusted += ['ASSUMED of the unverified detection stage (collect_repeated_substrings, create_ranges_of_repetitions, coalesce_repetitions: itertools chains; external_body): for a list of plain graphemes shorter than 2^32 the composition delivers `detection_ok` -- every range lies inside the input and the graphemes in it stand for the unit repeated (end - start) / unit-length times, a unit is at most half as long as the input, the ranges arrive in descending order without overlap',
                  'Vec::splice with a one-element iterator replaces the range by that element (vx_splice_one); `.iter().map(closure).collect_vec()` applies the closure to every element in order (vx_map_strings, closure kept and checked through its own ensures); AsMut for Vec is the identity (R34)',
                  'Display for Grapheme prints `repetitions` when not empty and `chars` otherwise, followed by {min} (spec `deep`): read off grapheme.rs, verified structurally in unit render, not linked here',
                  'the input graphemes of GraphemeCluster::convert_repetitions are plain (precondition): they come from Grapheme::from (verified here) through GraphemeCluster::from / convert_to_char_classes (plumbing not verified)']
    return b
