"""Unit `expr`: the elimination algebra of expression.rs (C01 soundness, C02/C16 exactness, C07 body safety)."""
from vx.assemble import Builder, Clause

NAME = 'expr'
PROPS = ['C01', 'C02', 'C16', 'C07']

TRUSTED_PRELUDE = r'''
// ---- trusted prelude: derived impls are structural; Box::from is Box::new ----
pub assume_specification<T> [<Box<T> as From<T>>::from] (t: T) -> (r: Box<T>) ensures *r == t;
pub assume_specification [<Grapheme as Clone>::clone] (e: &Grapheme) -> (r: Grapheme) ensures r == *e;
pub assume_specification<'a> [<GraphemeCluster<'a> as Clone>::clone] (e: &GraphemeCluster<'a>) -> (r: GraphemeCluster<'a>) ensures r == *e;
pub assume_specification<'a> [<Expression<'a> as Clone>::clone] (e: &Expression<'a>) -> (r: Expression<'a>) ensures r == *e;
pub assume_specification [<Quantifier as Clone>::clone] (e: &Quantifier) -> (r: Quantifier) ensures r == *e;
pub assume_specification<T> [<[T]>::rotate_right] (s: &mut [T], k: usize)
    ensures final(s)@.to_multiset() == old(s)@.to_multiset();
'''
def eq_impl(T, G=''):
    return f'''impl{G} PartialEqSpecImpl for {T} {{
    open spec fn obeys_eq_spec() -> bool {{ true }}
    open spec fn eq_spec(&self, other: &{T}) -> bool {{ *self == *other }}
}}
impl{G} PartialEq for {T} {{ #[verifier::external_body] fn eq(&self, o: &Self) -> (r: bool) {{ unimplemented!() }} }}
'''
OUTSIDE = '''
impl Clone for Grapheme { fn clone(&self) -> Self { unimplemented!() } }
impl<'a> Clone for GraphemeCluster<'a> { fn clone(&self) -> Self { unimplemented!() } }
impl<'a> Clone for Expression<'a> { fn clone(&self) -> Self { unimplemented!() } }
impl Clone for Quantifier { fn clone(&self) -> Self { unimplemented!() } }
fn main() {}
'''

# contracts that other units (elim, regexp) reuse as ASSUMED contracts of the same functions: one text, verified here
CONCAT_CLAUSES = [('concatenate.sound', 'cat(olang(*a), olang(*b)).subset_of(olang(r))', ['C01', 'C16']),
                  ('concatenate.exact', 'olang(r) == cat(olang(*a), olang(*b))', ['C02', 'C16']),
                  ('concatenate.some', 'r is Some ==> *a is Some && *b is Some', ['C02', 'C16'])]
UNION_CLAUSES = [('union.sound', 'olang(*a).union(olang(*b)).subset_of(olang(r))', ['C01', 'C16']),
                 ('union.exact', 'olang(r) == olang(*a).union(olang(*b))', ['C02', 'C16']),
                 ('union.some', 'r is Some ==> *a is Some || *b is Some', ['C02', 'C16'])]
NEW_LITERAL_CLAUSES = [('new_literal.lang', 'lang(r) == lit_lang(cluster.graphemes@)', ['C02', 'C16']), ('new_literal.shape', 'r is Literal && r->Literal_0 == cluster', ['C02'])]
NEW_ALTERNATION_ENSURES = ['lang(r) == alt_lang(exprs@)']

def build(repo, spec_dir, canary=False):
    b = Builder(NAME, repo, canary)
    b.emit('#![feature(allocator_api)]\nuse vstd::prelude::*;\nuse vstd::std_specs::cmp::*;\nuse std::collections::BTreeSet;\nverus! {')
    b.type_item('config.rs', r'^pub struct RegExpConfig \{')
    b.type_item('quantifier.rs', r'^pub enum Quantifier \{')
    b.type_item('substring.rs', r'^pub enum Substring \{')
    b.type_item('grapheme.rs', r'^pub struct Grapheme \{')
    b.type_item('cluster.rs', r"^pub struct GraphemeCluster<'a> \{")
    b.type_item('expression.rs', r"^pub enum Expression<'a> \{")
    b.emit('pub mod spec {\nuse super::*;')
    b.emit(open(spec_dir + '/lang.rs').read())
    b.emit('}\nmod code {\nuse super::*;\nuse super::spec::*;\nbroadcast use {lang_lemmas, lemma_strip, lemma_alt_lang_perm_b};')
    # --- cluster.rs small methods
    b.emit("impl<'a> GraphemeCluster<'a> {")
    GC = "^impl<'a> GraphemeCluster<'a> \\{"
    for name, ens in [('from_graphemes', 'r.graphemes@ == graphemes@'), ('new', 'r.graphemes@ == seq![grapheme]'),
                      ('merge', 'r.graphemes@ == first.graphemes@ + second.graphemes@'), ('graphemes', '*r == self.graphemes'),
                      ('size', 'r == self.graphemes@.len()'), ('is_empty', 'r == (self.graphemes@.len() == 0)')]:
        b.verified_fn('cluster.rs', name, within=GC, clauses=[Clause('cluster.%s' % name, ens, ['C02', 'C16'])], props=['C07'], fname='GraphemeCluster::' + name)
    b.emit('}')
    b.emit("impl<'a> Expression<'a> {")
    EX = "^impl<'a> Expression<'a> \\{"
    V = lambda name, **kw: b.verified_fn('expression.rs', name, within=EX, props=['C07'], fname='Expression::' + name, **kw)
    V('new_concatenation', clauses=[Clause('new_concatenation.lang', 'lang(r) == cat(lang(expr1), lang(expr2))', ['C02', 'C16'])])
    V('new_literal', clauses=[Clause(*c) for c in NEW_LITERAL_CLAUSES])
    V('new_repetition', clauses=[Clause('new_repetition.lang', 'lang(r) == (match quantifier { Quantifier::QuestionMark => lang(expr).union(eps()), Quantifier::KleeneStar => star(lang(expr)) })', ['C02', 'C16'])])
    V('is_empty', clauses=[Clause('is_empty.eps', 'r ==> lang(*self) == eps()', ['C02', 'C16'])])
    V('precedence')
    VS = 'value_spec(*self, match substring { Some(s) => Some(*s), None => None })'
    V('value', clauses=[Clause('value.spec', 'match r { Some(v) => %s == Some(v@), None => %s is None }' % (VS, VS), ['C02', 'C16'])], decreases='self')
    V('concatenate', clauses=[Clause(*c) for c in CONCAT_CLAUSES])
    V('union', clauses=[Clause(*c) for c in UNION_CLAUSES])
    V('remove_common_substring', clauses=[Clause('remove_common_substring.lang', '''match r {
            Some(c) => c@.len() > 0
                && (substring is Prefix ==> lang(*old(a)) == cat(lit_lang(c@), lang(*final(a))) && lang(*old(b)) == cat(lit_lang(c@), lang(*final(b))))
                && (substring is Suffix ==> lang(*old(a)) == cat(lang(*final(a)), lit_lang(c@)) && lang(*old(b)) == cat(lang(*final(b)), lit_lang(c@))),
            None => *final(a) == *old(a) && *final(b) == *old(b),
        }''', ['C01', 'C02', 'C16'])])
    A = lambda name, **kw: b.assumed_fn('expression.rs', name, within=EX, **kw)
    A('repeat_zero_or_more_times', ensures=['match *expr { Some(e) => r is Some && lang(r->Some_0) == star(lang(e)), None => r is None }'], why='Option::map(closure); `star` is uninterpreted (never reached for an acyclic automaton)')
    A('new_alternation', ensures=NEW_ALTERNATION_ENSURES, why='sort_by_key(closure)')
    A('new_character_class', ensures=['lang(r) == class_lang(first_char_set@.union(second_char_set@))'], why='iterator chain')
    A('is_single_codepoint', ensures=['r ==> lang(*self) == class_lang(charset_spec(*self))'], why='string iteration; meaning of a one-char grapheme')
    A('extract_character_set', ensures=['r@ == charset_spec(expr)'], why='string iteration')
    A('remove_substring', requires=['match value_spec(*old(self), Some(*substring)) { Some(v) => length <= v.len(), None => true }'],
      ensures=['stripped(*old(self), *final(self), *substring, length as int)'], why='Vec::drain')
    A('find_common_substring', ensures=['''match r {
            Some(c) => c@.len() > 0 && value_spec(*a, Some(*substring)) is Some && value_spec(*b, Some(*substring)) is Some
                && (*substring is Prefix ==> is_prefix(c@, value_spec(*a, Some(*substring))->Some_0) && is_prefix(c@, value_spec(*b, Some(*substring))->Some_0))
                && (*substring is Suffix ==> is_suffix(c@, value_spec(*a, Some(*substring))->Some_0) && is_suffix(c@, value_spec(*b, Some(*substring))->Some_0)),
            None => true }'''], why='zip_longest loop')
    b.emit('}')
    # rotation of alternatives (regexp.rs) -- C01c, C08b
    b.emit('pub struct Regex { pub x: u8 }\npub struct RegExp { pub x: u8 }\nimpl RegExp {')
    b.assumed_fn('regexp.rs', 'regex_matches_all_test_cases', within="^impl<'a> RegExp<'a> \\{", ensures=[], why='regex engine call; only used as a loop guard')
    b.verified_fn('regexp.rs', 'is_each_test_case_matched_after_rotating_alternations', within="^impl<'a> RegExp<'a> \\{", props=['C07'], fname='RegExp::rotate',
                  clauses=[Clause('rotate.lang_preserved', 'lang(*final(expr)) == lang(*old(expr))', ['C01', 'C08', 'C16'])],
                  loops={1: [('rotate.lang_preserved@loop1', ['C01', 'C08', 'C16'], 'lang(*expr) == lang(*old(expr))')]})
    b.emit('}\n} // mod code')
    b.emit(TRUSTED_PRELUDE)
    b.emit(eq_impl('Grapheme')); b.emit(eq_impl('Quantifier')); b.emit(eq_impl("Expression<'a>", "<'a>"))
    b.emit('} // verus!')
    b.emit(OUTSIDE)
    b.trusted += ['derived Clone/PartialEq on Grapheme, GraphemeCluster, Expression, Quantifier are structural',
                  'Box::from(x) == Box::new(x)', 'glang (meaning of one grapheme) and star are uninterpreted']
    return b
