"""Unit `expr`: the elimination algebra of expression.rs (C01 soundness, C02/C16 exactness, C07 body safety)."""
from vx.assemble import Builder, Clause

NAME = 'expr'
PROPS = ['C01', 'C02', 'C16', 'C07']

TRUSTED_PRELUDE = r'''
// ---- trusted prelude: derived impls are structural; Box::from is Box::new ----
pub assume_specification<T> [<Box<T> as From<T>>::from] (t: T) -> (r: Box<T>) ensures *r == t;
pub assume_specification [<Grapheme as Clone>::clone] (e: &Grapheme) -> (r: Grapheme) ensures r == *e;
pub assume_specification<'a> [<GraphemeCluster<'a> as Clone>::clone] (e: &GraphemeCluster<'a>) -> (r: GraphemeCluster<'a>) ensures r == *e;
pub assume_specification<'a> [<Expression<'a> as Clone>::clone] (e: &Expression<'a>) -> (r: Expression<'a>) ensures r == *e;
pub assume_specification [<Quantifier as Clone>::clone] (e: &Quantifier) -> (r: Quantifier) ensures r == *e;
pub assume_specification<T> [<[T]>::rotate_right] (s: &mut [T], k: usize)
    ensures final(s)@.to_multiset() == old(s)@.to_multiset();
pub assume_specification<T> [<[T]>::reverse] (s: &mut [T])
    ensures final(s)@ == old(s)@.reverse();
'''
def eq_impl(T, G=''):
    return f'''impl{G} PartialEqSpecImpl for {T} {{
    open spec fn obeys_eq_spec() -> bool {{ true }}
    open spec fn eq_spec(&self, other: &{T}) -> bool {{ *self == *other }}
}}
impl{G} PartialEq for {T} {{ #[verifier::external_body] fn eq(&self, o: &Self) -> (r: bool) {{ unimplemented!() }} }}
'''
OUTSIDE = '''
impl Clone for Grapheme { fn clone(&self) -> Self { unimplemented!() } }
impl<'a> Clone for GraphemeCluster<'a> { fn clone(&self) -> Self { unimplemented!() } }
impl<'a> Clone for Expression<'a> { fn clone(&self) -> Self { unimplemented!() } }
impl Clone for Quantifier { fn clone(&self) -> Self { unimplemented!() } }
fn main() {}
'''

# contracts that other units (elim, regexp) reuse as ASSUMED contracts of the same functions: one text, verified here
CONCAT_CLAUSES = [('concatenate.sound', 'cat(olang(*a), olang(*b)).subset_of(olang(r))', ['C01', 'C16']),
                  ('concatenate.exact', 'olang(r) == cat(olang(*a), olang(*b))', ['C02', 'C16']),
                  ('concatenate.some', 'r is Some ==> *a is Some && *b is Some', ['C02', 'C16'])]
UNION_CLAUSES = [('union.sound', 'olang(*a).union(olang(*b)).subset_of(olang(r))', ['C01', 'C16']),
                 ('union.exact', 'olang(r) == olang(*a).union(olang(*b))', ['C02', 'C16']),
                 ('union.some', 'r is Some ==> *a is Some || *b is Some', ['C02', 'C16'])]
NEW_LITERAL_CLAUSES = [('new_literal.lang', 'lang(r) == lit_lang(cluster.graphemes@)', ['C02', 'C16']), ('new_literal.shape', 'r is Literal && r->Literal_0 == cluster', ['C02']),
                       ('new_literal.settings_in_their_positions', 'r is Literal && r->Literal_1 == config.is_non_ascii_char_escaped && r->Literal_2 == config.is_astral_code_point_converted_to_surrogate', ['C11'])]
NEW_ALTERNATION_ENSURES = ['lang(r) == alt_lang(exprs@)']
# is_each_test_case_matched_after_rotating_alternations: verified here, assumed with the same text in unit regexp
ROTATE_CLAUSES = [('rotate.lang_preserved', 'lang(*final(expr)) == lang(*old(expr))', ['C01', 'C08', 'C16']),
                  ('rotate.positive_verdict_is_for_the_returned_arrangement', 'r ==> selfcheck_verdict(*regex, test_cases@) && *final(expr) == *old(expr)', ['C08'])]

def build(repo, spec_dir, canary=False):
    b = Builder(NAME, repo, canary)
    b.emit('#![feature(allocator_api)]\nuse vstd::prelude::*;\nuse vstd::std_specs::cmp::*;\nuse std::collections::BTreeSet;\nverus! {')
    b.type_item('config.rs', r'^pub struct RegExpConfig \{')
    b.type_item('quantifier.rs', r'^pub enum Quantifier \{')
    b.type_item('substring.rs', r'^pub enum Substring \{')
    b.type_item('grapheme.rs', r'^pub struct Grapheme \{')
    b.type_item('cluster.rs', r"^pub struct GraphemeCluster<'a> \{")
    b.type_item('expression.rs', r"^pub enum Expression<'a> \{")
    b.emit('pub mod spec {\nuse super::*;')
    b.emit(open(spec_dir + '/lang.rs').read())
    b.emit('}\nmod code {\nuse super::*;\nuse super::spec::*;\nbroadcast use {lang_lemmas, lemma_strip, lemma_alt_lang_perm_b};')
    # --- cluster.rs small methods
    b.emit("impl<'a> GraphemeCluster<'a> {")
    GC = "^impl<'a> GraphemeCluster<'a> \\{"
    for name, ens in [('from_graphemes', 'r.graphemes@ == graphemes@'), ('new', 'r.graphemes@ == seq![grapheme]'),
                      ('merge', 'r.graphemes@ == first.graphemes@ + second.graphemes@'), ('graphemes', '*r == self.graphemes'),
                      ('size', 'r == self.graphemes@.len()'), ('is_empty', 'r == (self.graphemes@.len() == 0)')]:
        b.verified_fn('cluster.rs', name, within=GC, clauses=[Clause('cluster.%s' % name, ens, ['C02', 'C16'])], props=['C07'], fname='GraphemeCluster::' + name)
    b.emit('}')
    b.emit("impl<'a> Expression<'a> {")
    EX = "^impl<'a> Expression<'a> \\{"
    V = lambda name, **kw: b.verified_fn('expression.rs', name, within=EX, props=['C07'], fname='Expression::' + name, **kw)
    V('new_concatenation', clauses=[Clause('new_concatenation.lang', 'lang(r) == cat(lang(expr1), lang(expr2))', ['C02', 'C16']),
                                    Clause('new_concatenation.settings_in_their_positions', 'r is Concatenation && r->Concatenation_2 == config.is_capturing_group_enabled && r->Concatenation_3 == config.is_output_colorized && r->Concatenation_4 == config.is_verbose_mode_enabled', ['C06', 'C15'])])
    V('new_literal', clauses=[Clause(*c) for c in NEW_LITERAL_CLAUSES])
    V('new_repetition', clauses=[Clause('new_repetition.settings_in_their_positions', 'r is Repetition && r->Repetition_2 == config.is_capturing_group_enabled && r->Repetition_3 == config.is_output_colorized && r->Repetition_4 == config.is_verbose_mode_enabled', ['C06', 'C15']), Clause('new_repetition.lang', 'lang(r) == (match quantifier { Quantifier::QuestionMark => lang(expr).union(eps()), Quantifier::KleeneStar => star(lang(expr)) })', ['C02', 'C16'])])
    V('is_empty', clauses=[Clause('is_empty.eps', 'r ==> lang(*self) == eps()', ['C02', 'C16'])])
    V('precedence')
    V('len', requires=['alts_nonempty(*self)', 'wlen(*self) <= usize::MAX'], decreases='self',
      clauses=[Clause('len.word_length', 'r == wlen(*self)', ['C08']),
               Clause('len.literal_counts_repeated_text', '(*self) is Literal ==> r == mlen(*self)', ['C08']),          # fails on the unchanged tree: KF3
               Clause('len.matched_length_composed', '!((*self) is Literal) ==> r == mlen(*self)', ['C08'])])
    VS = 'value_spec(*self, match substring { Some(s) => Some(*s), None => None })'
    V('value', clauses=[Clause('value.spec', 'match r { Some(v) => %s == Some(v@), None => %s is None }' % (VS, VS), ['C02', 'C16'])], decreases='self')
    V('concatenate', clauses=[Clause(*c) for c in CONCAT_CLAUSES])
    V('union', clauses=[Clause(*c) for c in UNION_CLAUSES], blocks=[(None, 'fn_start', '        broadcast use axiom_char_count_one;')])
    V('remove_common_substring', clauses=[Clause('remove_common_substring.lang', '''match r {
            Some(c) => c@.len() > 0
                && (substring is Prefix ==> lang(*old(a)) == cat(lit_lang(c@), lang(*final(a))) && lang(*old(b)) == cat(lit_lang(c@), lang(*final(b))))
                && (substring is Suffix ==> lang(*old(a)) == cat(lang(*final(a)), lit_lang(c@)) && lang(*old(b)) == cat(lang(*final(b)), lit_lang(c@))),
            None => *final(a) == *old(a) && *final(b) == *old(b),
        }''', ['C01', 'C02', 'C16'])])
    A = lambda name, **kw: b.assumed_fn('expression.rs', name, within=EX, **kw)
    A('repeat_zero_or_more_times', ensures=['match *expr { Some(e) => r is Some && lang(r->Some_0) == star(lang(e)), None => r is None }'], why='Option::map(closure); `star` is uninterpreted (never reached for an acyclic automaton)')
    b.emit("""    // sort_by_key(closure) permutes the vector (std); the key (Reverse(len())) only decides the order, which the language does not depend on
}
#[verifier::external_body] pub fn vx_sort_by_key_permutes<'a>(v: &mut Vec<Expression<'a>>) ensures final(v)@.to_multiset() == old(v)@.to_multiset() { unimplemented!() }
impl<'a> Expression<'a> {""")
    V('flatten_alternations', decreases='current_options',
      clauses=[Clause('flatten.lang', 'alt_lang(final(flattened_options)@) == alt_lang(old(flattened_options)@).union(alt_lang(current_options@))', ['C01', 'C02', 'C08', 'C16'])],
      loops={1: ['it1.seq() == vstd::std_specs::vec::into_iter_elts(it1.snapshot@)', 'vstd::std_specs::vec::into_iter_elts(it1.snapshot@) == current_options@', '0 <= it1.index@ <= current_options@.len()',
                 ('flatten.lang@loop1', ['C01', 'C02', 'C08', 'C16'], 'alt_lang(flattened_options@) == alt_lang(old(flattened_options)@).union(alt_lang(current_options@.take(it1.index@)))')]},
      blocks=[(1, 'loop_before', '        proof { lemma_alt_lang_empty(); assert(current_options@.take(0) =~= Seq::<Expression>::empty()); }'),
              (1, 'loop_start', '            let ghost f0 = flattened_options@; proof { assert(option == current_options@[it1.index@]); lemma_alt_take_step(current_options@, it1.index@); }'),
              (1, 'loop_end', '            proof { if !(current_options@[it1.index@] is Alternation) { lemma_alt_lang_push(f0, current_options@[it1.index@]); } }', ('flatten.lang@loop1', ['C01', 'C02', 'C08', 'C16'])),
              (1, 'loop_after', '        proof { assert(current_options@.take(current_options@.len() as int) =~= current_options@); }')])
    V('new_alternation', clauses=[Clause('new_alternation.lang', NEW_ALTERNATION_ENSURES[0], ['C01', 'C02', 'C08', 'C16']),
                                  Clause('new_alternation.settings_in_their_positions', 'r is Alternation && r->Alternation_1 == config.is_capturing_group_enabled && r->Alternation_2 == config.is_output_colorized && r->Alternation_3 == config.is_verbose_mode_enabled', ['C06', 'C15'])],
      extra_rules=[('R19', r'options\.sort_by_key\(\|option\| Reverse\(option\.len\(\)\)\);', 'vx_sort_by_key_permutes(&mut options);', 'sort_by_key(closure): a permutation; the key only decides the order')],
      blocks=[('vx_sort_by_key_permutes(&mut options);', 'before', '        let ghost options_before_sort = options@;'),
              (None, 'before_tail', '        proof { lemma_alt_lang_empty(); lemma_alt_lang_perm(options_before_sort, options@); }')])
    b.emit("""}
// std stand-ins for the class helpers (specified exactly)
#[verifier::external_body] pub fn vx_btreeset_union(a: &BTreeSet<char>, b: &BTreeSet<char>) -> (r: BTreeSet<char>) ensures r@ == a@.union(b@) { unimplemented!() }
#[verifier::external_body] pub fn vx_btreeset_one(c: char) -> (r: BTreeSet<char>) ensures r@ == set![c] { unimplemented!() }
#[verifier::external_body] pub fn vx_first_char(s: &String) -> (r: char) requires s@.len() > 0 ensures r == s@[0] { unimplemented!() }
impl Grapheme {""")
    G = r'^impl Grapheme \{'
    b.assumed_fn('grapheme.rs', 'value', within=G, ensures=['r@ == joined_chars(self.chars@)'], why='Vec<String>::join (std); uninterpreted')
    b.verified_fn('grapheme.rs', 'maximum', within=G, clauses=[Clause('grapheme.maximum', 'r == self.max', ['C02'])], props=['C07'], fname='Grapheme::maximum')
    b.verified_fn('grapheme.rs', 'minimum', within=G, clauses=[Clause('grapheme.minimum', 'r == self.min', ['C02'])], props=['C07'], fname='Grapheme::minimum')
    b.emit("}\nimpl<'a> GraphemeCluster<'a> {")
    b.assumed_fn('cluster.rs', 'char_count', within=GC, ensures=['r == cc_spec(*self, is_non_ascii_char_escaped)'],
                 why='iter().map(closure).sum(): the number of code points of the (escaped) text; a positive count needs a non-empty first grapheme')
    b.emit("}\nimpl<'a> Expression<'a> {")
    V('new_character_class', clauses=[Clause('new_character_class.lang', 'lang(r) == class_lang(first_char_set@.union(second_char_set@))', ['C02', 'C16']),
                                      Clause('new_character_class.settings_in_their_positions', 'r is CharacterClass && r->CharacterClass_1 == config.is_output_colorized', ['C15'])],
      blocks=[(None, 'fn_start', '        broadcast use lemma_lang_class;')],
      extra_rules=[('R19', r'\b(\w+)\.union\(&(\w+)\)\.copied\(\)\.collect\(\)', r'vx_btreeset_union(&\1, &\2)', 'BTreeSet::union(..).copied().collect()')])
    V('is_single_codepoint', clauses=[Clause('is_single_codepoint.structure', 'r == single_cp_spec(*self)', ['C02', 'C03']),
                                      Clause('is_single_codepoint.class_language', 'r ==> lang(*self) == class_lang(charset_spec(*self))', ['C02', 'C16'])],
      blocks=[(None, 'fn_start', '        broadcast use {lemma_lang_class, axiom_single_code_point_literal, axiom_char_count_one};')],
      extra_rules=[('R19', r'cluster\.graphemes\(\)\.first\(\)\.unwrap\(\)', '(&cluster.graphemes()[0])', 'slice::first().unwrap() = element 0 (index checked)')])
    V('extract_character_set', requires=['expr is Literal ==> expr->Literal_0.graphemes@.len() > 0 && joined_chars(expr->Literal_0.graphemes@[0].chars@).len() > 0'],
      clauses=[Clause('extract_character_set.spec', 'r@ == charset_spec(expr)', ['C02', 'C16'])],
      extra_rules=[('R19', r'cluster\s*\.graphemes\(\)\s*\.first\(\)\s*\.unwrap\(\)\s*\.value\(\)\s*\.chars\(\)\s*\.next\(\)\s*\.unwrap\(\)', 'vx_first_char(&cluster.graphemes()[0].value())', 'first().unwrap().value().chars().next().unwrap(): first character of the first grapheme (emptiness is a precondition)'),
                   ('R19', r'btreeset!\[single_char\]', 'vx_btreeset_one(single_char)', 'macro btreeset![x]: a set with one element')])
    b.emit("""    // Vec::drain(range) dropped at once = removal of that range (std); specified exactly
}
#[verifier::external_body] pub fn vx_drain_prefix(v: &mut Vec<Grapheme>, n: usize) requires n <= old(v)@.len() ensures final(v)@ == old(v)@.subrange(n as int, old(v)@.len() as int) { unimplemented!() }
#[verifier::external_body] pub fn vx_drain_suffix(v: &mut Vec<Grapheme>, n: usize) requires n <= old(v)@.len() ensures final(v)@ == old(v)@.subrange(0, old(v)@.len() - n) { unimplemented!() }
impl<'a> GraphemeCluster<'a> {""")
    b.verified_fn('cluster.rs', 'graphemes_mut', within=GC, props=['C07'], fname='GraphemeCluster::graphemes_mut',
                  clauses=[Clause('cluster.graphemes_mut', '*r == old(self).graphemes && final(self).graphemes == *final(r) && final(self).config == old(self).config', ['C02', 'C16'])])
    b.emit("}\nimpl<'a> Expression<'a> {")
    V('remove_substring', requires=['match value_spec(*old(self), Some(*substring)) { Some(v) => length <= v.len(), None => true }'],
      clauses=[Clause('remove_substring.stripped', 'stripped(*old(self), *final(self), *substring, length as int)', ['C01', 'C02', 'C16'])], decreases='*old(self)',
      extra_rules=[('R19', r'cluster\.graphemes_mut\(\)\.drain\(\.\.length\);', 'vx_drain_prefix(cluster.graphemes_mut(), length);', 'Vec::drain(..n) dropped at once'),
                   ('R19', r'graphemes\.drain\(graphemes\.len\(\) - length\.\.\);', 'vx_drain_suffix(graphemes, length);', 'Vec::drain(len - n..) dropped at once')])
    b.emit("""    // itertools zip_longest over two slices: pairs while both last, then the rest of the longer one (specified exactly)
}
pub enum EitherOrBoth<A, B> { Both(A, B), Left(A), Right(B) }
use EitherOrBoth::Both;
#[verifier::external_body] pub fn vx_zip_longest<'x>(a: &'x Vec<Grapheme>, b: &'x Vec<Grapheme>) -> (r: Vec<EitherOrBoth<&'x Grapheme, &'x Grapheme>>)
    ensures r@.len() == (if a@.len() >= b@.len() { a@.len() } else { b@.len() }),
            forall|i: int| 0 <= i < r@.len() ==> ((#[trigger] r@[i]) is Both <==> (i < a@.len() && i < b@.len())),
            forall|i: int| 0 <= i < a@.len() && i < b@.len() ==> *(#[trigger] r@[i])->Both_0 == a@[i] && *r@[i]->Both_1 == b@[i],
{ unimplemented!() }
#[verifier::external_body] pub fn vx_unwrap_or_default(o: Option<Vec<Grapheme>>) -> (r: Vec<Grapheme>) ensures r@ == (match o { Some(v) => v@, None => Seq::<Grapheme>::empty() }) { unimplemented!() }
impl<'a> Expression<'a> {""")
    FC = 'match r { Some(c) => c@.len() > 0 && value_spec(*a, Some(*substring)) is Some && value_spec(*b, Some(*substring)) is Some && (*substring is Prefix ==> is_prefix(c@, value_spec(*a, Some(*substring))->Some_0) && is_prefix(c@, value_spec(*b, Some(*substring))->Some_0)) && (*substring is Suffix ==> is_suffix(c@, value_spec(*a, Some(*substring))->Some_0) && is_suffix(c@, value_spec(*b, Some(*substring))->Some_0)), None => true }'
    V('find_common_substring', clauses=[Clause('find_common_substring.common', FC, ['C01', 'C02', 'C16'])],
      extra_rules=[('R19', r'\b(a|b)\.value\(Some\(substring\)\)\.unwrap_or_default\(\)', r'vx_unwrap_or_default(\1.value(Some(substring)))', 'Option<Vec<_>>::unwrap_or_default'),
                   ('R19', r'graphemes_a\.iter\(\)\.zip_longest\(graphemes_b\.iter\(\)\)', 'vx_zip_longest(&graphemes_a, &graphemes_b)', 'itertools zip_longest over two slices')],
      loops={1: [(x.replace('ELS', 'vstd::std_specs::vec::into_iter_elts(it1.snapshot@)') if isinstance(x, str) else x) for x in [
                 'it1.seq() == ELS', '0 <= it1.index@ <= ELS.len()', ('find_common_substring.scans_in_step@loop1', ['C01', 'C02', 'C16'], '!break common_graphemes@.len() == it1.index@'),
                 'ELS.len() == (if graphemes_a@.len() >= graphemes_b@.len() { graphemes_a@.len() } else { graphemes_b@.len() })',
                 'forall|i: int| 0 <= i < ELS.len() ==> ((#[trigger] ELS[i]) is Both <==> (i < graphemes_a@.len() && i < graphemes_b@.len()))',
                 'forall|i: int| 0 <= i < graphemes_a@.len() && i < graphemes_b@.len() ==> *(#[trigger] ELS[i])->Both_0 == graphemes_a@[i] && *ELS[i]->Both_1 == graphemes_b@[i]']] +
                [('find_common_substring.common@loop1', ['C01', 'C02', 'C16'], 'common_graphemes@.len() <= it1.index@ && common_graphemes@.len() <= graphemes_a@.len() && common_graphemes@.len() <= graphemes_b@.len() && common_graphemes@ == graphemes_a@.take(common_graphemes@.len() as int) && common_graphemes@ == graphemes_b@.take(common_graphemes@.len() as int)')]},
      blocks=[(1, 'loop_start', '            let ghost c0 = common_graphemes@; proof { assert(pair == it1.seq()[it1.index@]); }'),
              (1, 'loop_end', '''            proof {
                let k = it1.index@;
                assert(graphemes_a@.take(k + 1) =~= graphemes_a@.take(k).push(graphemes_a@[k]));
                assert(graphemes_b@.take(k + 1) =~= graphemes_b@.take(k).push(graphemes_b@[k]));
            }''', ('find_common_substring.common@loop1', ['C01', 'C02', 'C16'])),
              (1, 'loop_after', '        let ghost pre = common_graphemes@; let ghost ga = graphemes_a@; let ghost gb = graphemes_b@;'),
              (None, 'before_tail', """        proof {
            let va = value_spec(*a, Some(*substring)); let vb = value_spec(*b, Some(*substring));
            if pre.len() > 0 {
                let n = pre.len() as int;
                assert(va is Some && vb is Some);
                if *substring is Suffix {
                    lemma_rev_take(va->Some_0, n); lemma_rev_take(vb->Some_0, n);
                    assert(common_graphemes@ =~= va->Some_0.subrange(va->Some_0.len() - n, va->Some_0.len() as int));
                    assert(common_graphemes@ =~= vb->Some_0.subrange(vb->Some_0.len() - n, vb->Some_0.len() as int));
                } else {
                    assert(va->Some_0.subrange(0, n) =~= pre); assert(vb->Some_0.subrange(0, n) =~= pre);
                }
            }
        }""", ('find_common_substring.common', ['C01', 'C02', 'C16']))])
    b.emit('}')
    # rotation of alternatives (regexp.rs) -- C01c, C08b
    b.emit('pub struct Regex { pub x: u8 }')
    b.type_item('regexp.rs', r"^pub struct RegExp<'a> \{")
    b.emit("impl<'a> RegExp<'a> {")
    b.emit('''    // ghost bookkeeping of the self-check: the verdict is a function of the compiled regex and the test cases
}
pub uninterp spec fn selfcheck_verdict(r: Regex, test_cases: Seq<String>) -> bool;
impl<'a> RegExp<'a> {''')
    b.assumed_fn('regexp.rs', 'regex_matches_all_test_cases', within="^impl<'a> RegExp<'a> \\{", ensures=['r == selfcheck_verdict(*regex, test_cases@)'], why='regex engine call; the verdict is a function of its two arguments')
    b.verified_fn('regexp.rs', 'is_each_test_case_matched_after_rotating_alternations', within="^impl<'a> RegExp<'a> \\{", props=['C07'], fname='RegExp::rotate',
                  clauses=[Clause(*c) for c in ROTATE_CLAUSES],
                  loops={1: [('rotate.lang_preserved@loop1', ['C01', 'C08', 'C16'], 'lang(*expr) == lang(*old(expr))'),
                             ('rotate.positive_verdict_is_for_the_returned_arrangement@loop1', ['C08'], '*expr == *old(expr) || !selfcheck_verdict(*regex, test_cases@)')]})
    b.emit('}\n} // mod code')
    b.emit(TRUSTED_PRELUDE)
    b.emit(eq_impl('Grapheme')); b.emit(eq_impl('Quantifier')); b.emit(eq_impl("Expression<'a>", "<'a>"))
    b.emit('} // verus!')
    b.emit(OUTSIDE)
    b.trusted += ['derived Clone/PartialEq on Grapheme, GraphemeCluster, Expression, Quantifier are structural',
                  'new_alternation: the key closure of sort_by_key (`Reverse(option.len())`) is not executed by the model -- that every option meets the precondition of len() there (no alternation without options, no overflow of the summed lengths) and the resulting ORDER of the options are NOT decided',
                  'Box::from(x) == Box::new(x)', 'glang (meaning of one grapheme) and star are uninterpreted']
    return b
