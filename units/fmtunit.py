"""Unit `format`: decisions of the printer in format.rs / regexp.rs that a contract can state (C02 parenthesisation and class escaping,
C06 group kind, C11 escape flags, C08 self-check)."""
import re
from vx.assemble import Builder, Clause
from vx import extract as X, dialect as D
from units import render as R

def build(repo, spec_dir, canary=False):
    b = Builder('format', repo, canary)
    LITS = R.spec_literals(spec_dir)
    b.emit('#![feature(allocator_api)]\nuse vstd::prelude::*;\nuse std::collections::BTreeSet;\nverus! {')
    b.type_item('quantifier.rs', r'^pub enum Quantifier \{')
    b.type_item('component.rs', r'^pub\(crate\) enum Component \{')
    b.type_item('grapheme.rs', r'^pub struct Grapheme \{')
    b.type_item('config.rs', r'^pub struct RegExpConfig \{')
    b.type_item('cluster.rs', r"^pub struct GraphemeCluster<'a> \{")
    b.type_item('expression.rs', r"^pub enum Expression<'a> \{")
    b.emit('pub mod fm {\nuse super::*;'); b.emit(open(spec_dir + '/fmt_model.rs').read()); b.emit('}\nuse fm::*;')
    b.emit('pub mod sp {\nuse super::*;'); b.emit(open(spec_dir + '/render.rs').read()); b.emit('}\nuse sp::*;')
    b.emit('''pub assume_specification [<Quantifier as Clone>::clone] (e: &Quantifier) -> (r: Quantifier) ensures r == *e;
impl VxShow for Quantifier { open spec fn shown(&self) -> Seq<char> { quant_plain(*self) } #[verifier::external_body] fn vx_show(&self) -> (r: String) { unimplemented!() } }
impl VxShow for Component { open spec fn shown(&self) -> Seq<char> { plain(*self) } #[verifier::external_body] fn vx_show(&self) -> (r: String) { unimplemented!() } }
// the expression tree is opaque here: its text, precedence and single-code-point test are uninterpreted
pub uninterp spec fn expr_text(e: Expression) -> Seq<char>;
pub uninterp spec fn prec(e: Expression) -> u8;
pub uninterp spec fn single_cp(e: Expression) -> bool;
impl<'a> VxShow for Expression<'a> { open spec fn shown(&self) -> Seq<char> { expr_text(*self) } #[verifier::external_body] fn vx_show(&self) -> (r: String) { unimplemented!() } }
impl<'a> Expression<'a> {
    #[verifier::external_body] pub fn precedence(&self) -> (r: u8) ensures r == prec(*self) { unimplemented!() }
    #[verifier::external_body] pub fn is_single_codepoint(&self) -> (r: bool) ensures r == single_cp(*self) { unimplemented!() }
}
impl Component {
    // verified in unit render against exactly this contract
    #[verifier::external_body] pub fn to_repr(&self, is_output_colorized: bool) -> (r: String)
        ensures !is_output_colorized ==> r@ =~= plain(*self), is_output_colorized ==> colored_ok(r@, *self) { unimplemented!() }
}
// an operand is parenthesised iff its operator binds weaker than the context and it is not a single code point
pub open spec fn needs_group(operand: Expression, context: Expression) -> bool { prec(operand) < prec(context) && !single_cp(operand) }
pub open spec fn operand_ok(r: Seq<char>, operand: Expression, context: Expression, capturing: bool, verbose: bool, final_break: bool, colorized: bool) -> bool {
    if needs_group(operand, context) { group_ok(r, capturing, expr_text(operand), verbose, final_break, colorized) } else { r =~= expr_text(operand) }
}''')
    b.trusted.append('Component::to_repr is used through the contract that unit render verifies; Expression text / precedence / single-code-point test are uninterpreted')
    fm = b.src('format.rs')
    flags = 'is_capturing_group_enabled: bool, is_output_colorized: bool, is_verbose_mode_enabled: bool'
    # 1. format_alternation: closure |option|
    f, _, _ = X.fn(fm, 'format_alternation')
    body, _, _ = X.block_after(f, '.map(|option| ')
    b.slice_fn('alt_option', 'pub fn alt_option(option: &Expression, expr: &Expression, %s) -> (r: String)' % flags, body[1:-1], 'format.rs::format_alternation closure |option|',
               props=['C07'], pre=lambda t, log, w: D.expand_format_macros(t, log, w),
               clauses=[Clause('format.alternation_operand', 'operand_ok(r@, *option, *expr, is_capturing_group_enabled, is_verbose_mode_enabled, true, is_output_colorized)', ['C02', 'C06', 'C16'])])
    # 2. format_concatenation: closure |&it|
    f, _, _ = X.fn(fm, 'format_concatenation')
    body, _, _ = X.block_after(f, '.map(|&it| ')
    b.slice_fn('concat_operand', 'pub fn concat_operand(it: &Expression, expr: &Expression, %s) -> (r: String)' % flags, body[1:-1], 'format.rs::format_concatenation closure |&it|',
               props=['C07'], pre=lambda t, log, w: D.expand_format_macros(t, log, w),
               clauses=[Clause('format.concatenation_operand', 'operand_ok(r@, *it, *expr, is_capturing_group_enabled, is_verbose_mode_enabled, true, is_output_colorized)', ['C02', 'C06', 'C16'])])
    # 3. format_repetition: the whole function
    b.verified_fn('format.rs', 'format_repetition', props=['C07'], fname='format_repetition', pre=lambda t, log, w: D.expand_format_macros(t, log, w),
                  clauses=[Clause('format.repetition', 'exists|u: Seq<char>, q: Seq<char>| #[trigger] (old(f)@ + (u + q)) =~= final(f)@ && operand_ok(u, *expr1, *expr, is_capturing_group_enabled, is_verbose_mode_enabled, false, is_output_colorized) && (if is_output_colorized { colored_ok(q, Component::Quantifier(*quantifier, is_verbose_mode_enabled)) } else { q =~= plain(Component::Quantifier(*quantifier, is_verbose_mode_enabled)) })', ['C02', 'C06', 'C16'])])
    # 4. format_character_class: which characters are escaped inside a class
    f, _, _ = X.fn(fm, 'format_character_class')
    st, _, _ = X.let_stmt(f, 'chars_to_escape')
    body, _, _ = X.block_after(f, '.map(|c| ')
    b.emit('''#[verifier::external_body] pub fn vx_array_contains<const N: usize>(a: &[char; N], c: &char) -> (r: bool) ensures r == a@.contains(*c) { unimplemented!() }
// characters with a meaning inside a bracketed class of the regex crate: they must be written with a backslash
pub open spec fn class_meta(c: char) -> bool { c == '[' || c == ']' || c == '\\\\' || c == '-' || c == '^' }''')
    b.slice_fn('class_char', 'pub fn class_char(c: &char) -> (r: String)', '    ' + st + '\n' + body[1:-1], 'format.rs::format_character_class let chars_to_escape + closure |c|',
               props=['C07'], pre=lambda t, log, w: D.expand_format_macros(t, log, w), reveal=LITS,
               extra_rules=[('R19', r'chars_to_escape\.contains\(c\)', 'vx_array_contains(&chars_to_escape, c)', '[char; N]::contains')],
               clauses=[Clause('format.class_meta_escaped', "class_meta(*c) ==> r@ =~= seq!['\\\\', *c]", ['C02', 'C16', 'C07']),
                        Clause('format.class_plain_untouched', "!class_meta(*c) && *c != '$' && *c != '\\n' && *c != '\\r' && *c != '\\t' ==> r@ =~= seq![*c]", ['C02', 'C16']),
                        Clause('format.class_control_escaped', "(*c == '\\n' ==> r@ =~= \"\\\\n\"@) && (*c == '\\r' ==> r@ =~= \"\\\\r\"@) && (*c == '\\t' ==> r@ =~= \"\\\\t\"@)", ['C02', 'C07'])])
    # 5. format_literal: the escaping call passes the two flags in the right order
    f, _, _ = X.fn(fm, 'format_literal')
    inner, _, _ = X.block_after(f, '.for_each(|repeated_grapheme| ')
    b.emit('''pub uninterp spec fn escaped(g: Grapheme, non_ascii: bool, surrogates: bool) -> Grapheme;
impl Grapheme {
    #[verifier::external_body] pub fn escape_regexp_symbols(&mut self, is_non_ascii_char_escaped: bool, is_astral_code_point_converted_to_surrogate: bool)
        ensures *final(self) == escaped(*old(self), is_non_ascii_char_escaped, is_astral_code_point_converted_to_surrogate) { unimplemented!() }
}''')
    sig2 = '(%s: &mut Grapheme, is_non_ascii_char_escaped: bool, is_astral_code_point_converted_to_surrogate: bool)'
    b.slice_fn('literal_nested_escape', 'pub fn literal_nested_escape' + sig2 % 'repeated_grapheme', inner[1:-1], 'format.rs::format_literal closure |repeated_grapheme|', props=['C07'],
               clauses=[Clause('format.literal_nested_escape_flags', '*final(repeated_grapheme) == escaped(*old(repeated_grapheme), is_non_ascii_char_escaped, is_astral_code_point_converted_to_surrogate)', ['C11', 'C06'])])
    m = re.search(r'\} else \{\s*(grapheme\s*\.escape_regexp_symbols\([^;]*\);)', f)
    if not m: raise X.LostAnchor('format.rs::format_literal else-branch escape call')
    b.slice_fn('literal_escape', 'pub fn literal_escape' + sig2 % 'grapheme', '    ' + m.group(1), 'format.rs::format_literal else-branch statement', props=['C07'],
               clauses=[Clause('format.literal_escape_flags', '*final(grapheme) == escaped(*old(grapheme), is_non_ascii_char_escaped, is_astral_code_point_converted_to_surrogate)', ['C11', 'C06'])])
    # 6. regexp.rs: the self-check demands exactly one match per test case
    rx = b.src('regexp.rs')
    f, _, _ = X.fn(rx, 'regex_matches_all_test_cases')
    ce, _, _ = X.closure_expr(f, '.all(|test_case| ')
    b.emit('''pub struct Regex { pub x: u8 }
pub uninterp spec fn match_count(r: Regex, s: Seq<char>) -> nat;
#[verifier::external_body] pub fn vx_match_count(r: &Regex, s: &String) -> (n: usize) ensures n == match_count(*r, s@) { unimplemented!() }''')
    b.slice_fn('selfcheck_one', 'pub fn selfcheck_one(regex: &Regex, test_case: &String) -> (r: bool)', '    ' + ce, 'regexp.rs::regex_matches_all_test_cases closure |test_case|', props=['C07'],
               extra_rules=[('R19', r'regex\.find_iter\(test_case\)\.count\(\)', 'vx_match_count(regex, test_case)', 'Regex::find_iter(..).count() (uninterpreted number of matches)')],
               clauses=[Clause('selfcheck.exactly_one_match', 'r == (match_count(*regex, test_case@) == 1)', ['C08', 'C01'])])
    b.emit('} // verus!\nimpl Clone for Quantifier { fn clone(&self) -> Self { unimplemented!() } }\nfn main() {}')
    b.trusted += ['formatting model (R16); closure plumbing dropped: iter().map(closure).join / collect_vec / for_each / all apply the closure per element, in order',
                  'Grapheme::escape_regexp_symbols is opaque here (`escaped` uninterpreted): only the argument order is checked']
    return b
