"""Unit `format`: decisions of the printer in format.rs / regexp.rs that a contract can state (C02 parenthesisation and class escaping,
C06 group kind, C11 escape flags, C08 self-check)."""
import re
from vx.assemble import Builder, Clause
from vx import extract as X, rustlex as L, dialect as D
from units import render as R

def build(repo, spec_dir, canary=False):
    b = Builder('format', repo, canary)
    LITS = R.spec_literals(spec_dir)
    b.emit('#![feature(allocator_api)]\nuse vstd::prelude::*;\nuse std::collections::BTreeSet;\nverus! {')
    b.type_item('quantifier.rs', r'^pub enum Quantifier \{')
    b.type_item('component.rs', r'^pub\(crate\) enum Component \{')
    b.type_item('grapheme.rs', r'^pub struct Grapheme \{')
    b.type_item('config.rs', r'^pub struct RegExpConfig \{')
    b.type_item('cluster.rs', r"^pub struct GraphemeCluster<'a> \{")
    b.type_item('expression.rs', r"^pub enum Expression<'a> \{")
    b.emit('pub mod fm {\nuse super::*;'); b.emit(open(spec_dir + '/fmt_model.rs').read()); b.emit('}\nuse fm::*;')
    b.emit('pub mod sp {\nuse super::*;'); b.emit(open(spec_dir + '/render.rs').read()); b.emit('}\nuse sp::*;')
    b.emit('''pub assume_specification [<Quantifier as Clone>::clone] (e: &Quantifier) -> (r: Quantifier) ensures r == *e;
impl VxShow for Quantifier { open spec fn shown(&self) -> Seq<char> { quant_plain(*self) } #[verifier::external_body] fn vx_show(&self) -> (r: String) { unimplemented!() } }
impl VxShow for Component { open spec fn shown(&self) -> Seq<char> { plain(*self) } #[verifier::external_body] fn vx_show(&self) -> (r: String) { unimplemented!() } }
// the expression tree is opaque here: its text, precedence and single-code-point test are uninterpreted
pub uninterp spec fn expr_text(e: Expression) -> Seq<char>;
pub uninterp spec fn prec(e: Expression) -> u8;
pub uninterp spec fn single_cp(e: Expression) -> bool;
impl<'a> VxShow for Expression<'a> { open spec fn shown(&self) -> Seq<char> { expr_text(*self) } #[verifier::external_body] fn vx_show(&self) -> (r: String) { unimplemented!() } }
// helpers a changed text may reach for (specified exactly or uninterpreted; unused on the unchanged tree)
#[verifier::external_body] pub fn vx_char_count(s: &str) -> (r: usize) ensures r == s@.len() { unimplemented!() }
#[verifier::external_body] pub fn vx_str_starts_with_str(s: &str, p: &str) -> (r: bool) ensures r == (p@.len() <= s@.len() && forall|i: int| 0 <= i < p@.len() ==> #[trigger] s@[i] == p@[i]) { unimplemented!() }
impl<'a> GraphemeCluster<'a> {
    pub fn size(&self) -> (r: usize) ensures r == self.graphemes@.len() { self.graphemes.len() }
}
impl<'a> Expression<'a> {
    #[verifier::external_body] pub fn precedence(&self) -> (r: u8) ensures r == prec(*self) { unimplemented!() }
    #[verifier::external_body] pub fn is_single_codepoint(&self) -> (r: bool) ensures r == single_cp(*self) { unimplemented!() }
}
impl Component {
    // verified in unit render against exactly this contract
    #[verifier::external_body] pub fn to_repr(&self, is_output_colorized: bool) -> (r: String)
        ensures !is_output_colorized ==> r@ =~= plain(*self), is_output_colorized ==> colored_ok(r@, *self) { unimplemented!() }
}
// an operand is parenthesised iff its operator binds weaker than the context and it is not a single code point
pub open spec fn needs_group(operand: Expression, context: Expression) -> bool { prec(operand) < prec(context) && !single_cp(operand) }
pub open spec fn operand_ok(r: Seq<char>, operand: Expression, context: Expression, capturing: bool, verbose: bool, final_break: bool, colorized: bool) -> bool {
    if needs_group(operand, context) { group_ok(r, capturing, expr_text(operand), verbose, final_break, colorized) } else { r =~= expr_text(operand) }
}''')
    b.trusted.append('Component::to_repr is used through the contract that unit render verifies; Expression text / precedence / single-code-point test are uninterpreted')
    fm = b.src('format.rs')
    flags = 'is_capturing_group_enabled: bool, is_output_colorized: bool, is_verbose_mode_enabled: bool'
    # 1. format_alternation: closure |option|
    f, _, _ = X.fn(fm, 'format_alternation')
    body, _, _ = X.block_after(f, '.map(|option| ')
    b.slice_fn('alt_option', 'pub fn alt_option(option: &Expression, expr: &Expression, %s) -> (r: String)' % flags, body[1:-1], 'format.rs::format_alternation closure |option|',
               props=['C07'], pre=lambda t, log, w: D.expand_format_macros(t, log, w),
               clauses=[Clause('format.alternation_operand', 'operand_ok(r@, *option, *expr, is_capturing_group_enabled, is_verbose_mode_enabled, true, is_output_colorized)', ['C02', 'C06', 'C16'])])
    # 2. format_concatenation: closure |&it|
    f, _, _ = X.fn(fm, 'format_concatenation')
    body, _, _ = X.block_after(f, '.map(|&it| ')
    b.slice_fn('concat_operand', 'pub fn concat_operand(it: &Expression, expr: &Expression, %s) -> (r: String)' % flags, body[1:-1], 'format.rs::format_concatenation closure |&it|',
               props=['C07'], pre=lambda t, log, w: D.expand_format_macros(t, log, w),
               clauses=[Clause('format.concatenation_operand', 'operand_ok(r@, *it, *expr, is_capturing_group_enabled, is_verbose_mode_enabled, true, is_output_colorized)', ['C02', 'C06', 'C16'])])
    # 3. format_repetition: the whole function
    b.verified_fn('format.rs', 'format_repetition', props=['C07'], fname='format_repetition', pre=lambda t, log, w: D.expand_format_macros(t, log, w),
                  extra_rules=[('R12', r'\b(\w+)\.to_string\(\)\.starts_with\(("(?:[^"\\]|\\.)*")\)', r'vx_str_starts_with_str(&\1.vx_show(), \2)', 'Display rendering + str::starts_with(&str)')],
                  clauses=[Clause('format.repetition', 'exists|u: Seq<char>, q: Seq<char>| #[trigger] (old(f)@ + (u + q)) =~= final(f)@ && operand_ok(u, *expr1, *expr, is_capturing_group_enabled, is_verbose_mode_enabled, false, is_output_colorized) && (if is_output_colorized { colored_ok(q, Component::Quantifier(*quantifier, is_verbose_mode_enabled)) } else { q =~= plain(Component::Quantifier(*quantifier, is_verbose_mode_enabled)) })', ['C02', 'C06', 'C16'])])
    # 4. format_character_class: which characters are escaped inside a class
    f, _, _ = X.fn(fm, 'format_character_class')
    st, _, _ = X.let_stmt(f, 'chars_to_escape')
    body, _, _ = X.block_after(f, '.map(|c| ')
    b.emit('''#[verifier::external_body] pub fn vx_array_contains<const N: usize>(a: &[char; N], c: &char) -> (r: bool) ensures r == a@.contains(*c) { unimplemented!() }
// characters with a meaning inside a bracketed class of the regex crate: they must be written with a backslash
pub open spec fn class_meta(c: char) -> bool { c == '[' || c == ']' || c == '\\\\' || c == '-' || c == '^' }''')
    b.slice_fn('class_char', 'pub fn class_char(c: &char) -> (r: String)', '    ' + st + '\n' + body[1:-1], 'format.rs::format_character_class let chars_to_escape + closure |c|',
               props=['C07'], pre=lambda t, log, w: D.expand_format_macros(t, log, w), reveal=LITS,
               extra_rules=[('R19', r'chars_to_escape\.contains\(c\)', 'vx_array_contains(&chars_to_escape, c)', '[char; N]::contains')],
               clauses=[Clause('format.class_meta_escaped', "class_meta(*c) ==> r@ =~= seq!['\\\\', *c]", ['C02', 'C16', 'C07']),
                        Clause('format.class_plain_untouched', "!class_meta(*c) && *c != '$' && *c != '\\n' && *c != '\\r' && *c != '\\t' ==> r@ =~= seq![*c]", ['C02', 'C16']),
                        Clause('format.class_control_escaped', "(*c == '\\n' ==> r@ =~= \"\\\\n\"@) && (*c == '\\r' ==> r@ =~= \"\\\\r\"@) && (*c == '\\t' ==> r@ =~= \"\\\\t\"@)", ['C02', 'C07'])])
    # 5. format_literal: the escaping call passes the two flags in the right order
    f, _, _ = X.fn(fm, 'format_literal')
    inner, _, _ = X.block_after(f, '.for_each(|repeated_grapheme| ')
    b.emit('''pub uninterp spec fn escaped(g: Grapheme, non_ascii: bool, surrogates: bool) -> Grapheme;
impl Grapheme {
    #[verifier::external_body] pub fn escape_regexp_symbols(&mut self, is_non_ascii_char_escaped: bool, is_astral_code_point_converted_to_surrogate: bool)
        ensures *final(self) == escaped(*old(self), is_non_ascii_char_escaped, is_astral_code_point_converted_to_surrogate) { unimplemented!() }
}''')
    sig2 = '(%s: &mut Grapheme, is_non_ascii_char_escaped: bool, is_astral_code_point_converted_to_surrogate: bool)'
    b.slice_fn('literal_nested_escape', 'pub fn literal_nested_escape' + sig2 % 'repeated_grapheme', inner[1:-1], 'format.rs::format_literal closure |repeated_grapheme|', props=['C07'],
               clauses=[Clause('format.literal_nested_escape_flags', '*final(repeated_grapheme) == escaped(*old(repeated_grapheme), is_non_ascii_char_escaped, is_astral_code_point_converted_to_surrogate)', ['C11', 'C06'])])
    m = re.search(r'\} else \{\s*(grapheme\s*\.escape_regexp_symbols\([^;]*\);)', f)
    if not m: raise X.LostAnchor('format.rs::format_literal else-branch escape call')
    b.slice_fn('literal_escape', 'pub fn literal_escape' + sig2 % 'grapheme', '    ' + m.group(1), 'format.rs::format_literal else-branch statement', props=['C07'],
               clauses=[Clause('format.literal_escape_flags', '*final(grapheme) == escaped(*old(grapheme), is_non_ascii_char_escaped, is_astral_code_point_converted_to_surrogate)', ['C11', 'C06'])])
    # 6. regexp.rs: the self-check demands exactly one match per test case
    rx = b.src('regexp.rs')
    f, _, _ = X.fn(rx, 'regex_matches_all_test_cases')
    ce, _, _ = X.closure_expr(f, '.all(|test_case| ')
    b.emit('''pub struct Regex { pub x: u8 }
pub struct VxMatch { pub start: usize, pub end: usize }
impl VxMatch { pub fn start(&self) -> (r: usize) ensures r == self.start { self.start }  pub fn end(&self) -> (r: usize) ensures r == self.end { self.end } }
pub uninterp spec fn match_count(r: Regex, s: Seq<char>) -> nat;                  // number of non-overlapping matches (find_iter)
pub uninterp spec fn first_match(r: Regex, s: Seq<char>) -> Option<VxMatch>;      // the leftmost-first match (find), byte offsets
pub uninterp spec fn byte_len(s: Seq<char>) -> nat;                               // String::len: UTF-8 length
#[verifier::external_body] pub fn vx_match_count(r: &Regex, s: &String) -> (n: usize) ensures n == match_count(*r, s@) { unimplemented!() }
#[verifier::external_body] pub fn vx_find(r: &Regex, s: &String) -> (m: Option<VxMatch>) ensures m == first_match(*r, s@) { unimplemented!() }
#[verifier::external_body] pub fn vx_string_len(s: &String) -> (n: usize) ensures n == byte_len(s@) { unimplemented!() }
// what C08 needs of a test case that passes the self-check: a search finds it as a whole
pub open spec fn found_whole(r: Regex, s: Seq<char>) -> bool { first_match(r, s) is Some && first_match(r, s)->Some_0.start == 0 && first_match(r, s)->Some_0.end == byte_len(s) }''')
    def some_and(t, log, w):
        k = t.find('.is_some_and(|'); skip = 0; dflt = 'false'
        if k < 0:
            mo = re.search(r'\.map_or\((true|false), \|', t)
            if mo: k = mo.start(); dflt = mo.group(1); skip = len(dflt) + 2
        if k < 0: return t
        po = t.index('(', k); pc = L.match_close(t, po)
        mm = re.match(r'\|(\w+)\| ', t[po + 1 + skip:])
        if not mm: return t
        recv_start = t.rfind('\n', 0, k)
        # the receiver is the expression chain in front of `.is_some_and(`: from the start of the statement/expression
        recv = t[:k].strip()
        log.add('R33', w, 'X.is_some_and(|v| B)  /  X.map_or(D, |v| B)', 'match X { Some(v) => B, None => false / D }')
        return 'match %s { Some(%s) => %s, None => %s }' % (recv, mm.group(1), t[po + 1 + skip + mm.end():pc].strip(), dflt) + t[pc + 1:]
    body = ce.strip()
    if body.startswith('{') and body.endswith('}'): body = body[1:-1].strip()
    b.slice_fn('selfcheck_one', 'pub fn selfcheck_one(regex: &Regex, test_case: &String) -> (r: bool)', '    ' + body, 'regexp.rs::regex_matches_all_test_cases closure |test_case|', props=['C07'],
               pre=lambda t, log, w: some_and(re.sub(r'\s+', ' ', t), log, w),
               extra_rules=[('R19', r'regex\s*\.find_iter\(test_case\)\s*\.count\(\)', 'vx_match_count(regex, test_case)', 'Regex::find_iter(..).count() (uninterpreted number of matches)'),
                            ('R19', r'regex\s*\.find\(test_case\)', 'vx_find(regex, test_case)', 'Regex::find (uninterpreted leftmost-first match)'),
                            ('R19', r'\btest_case\.len\(\)', 'vx_string_len(test_case)', 'String::len (UTF-8 length, uninterpreted)'),
                            ('R5', r'\btest_case\.chars\(\)\.count\(\)', 'vx_char_count(test_case)', 'chars().count(): number of code points')],
               clauses=[Clause('selfcheck.accepts_only_a_test_case_found_as_a_whole', 'r ==> found_whole(*regex, test_case@)', ['C08', 'C01'])])
    b.emit('} // verus!\nimpl Clone for Quantifier { fn clone(&self) -> Self { unimplemented!() } }\nfn main() {}')
    b.trusted += ['formatting model (R16); closure plumbing dropped: iter().map(closure).join / collect_vec / for_each / all apply the closure per element, in order',
                  'Grapheme::escape_regexp_symbols is opaque here (`escaped` uninterpreted): only the argument order is checked']
    return b


# ---------------------------------------------------------------------------------------------------------------------------------------
def build_dispatch(repo, spec_dir, canary=False):
    """unit `dispatch` (C06, C15, C11): Display for Expression hands every variant to its formatter with the variant's fields in their positions
    (the constructors put the settings into these positions: unit expr, *.settings_in_their_positions)."""
    b = Builder('dispatch', repo, canary)
    b.emit('#![feature(allocator_api)]\nuse vstd::prelude::*;\nuse std::collections::BTreeSet;\nverus! {')
    for f, h in [('quantifier.rs', r'^pub enum Quantifier \{'), ('grapheme.rs', r'^pub struct Grapheme \{'), ('config.rs', r'^pub struct RegExpConfig \{'),
                 ('cluster.rs', r"^pub struct GraphemeCluster<'a> \{"), ('expression.rs', r"^pub enum Expression<'a> \{")]:
        b.type_item(f, h)
    b.emit('''pub struct Formatter<'a> { pub buf: Ghost<Seq<char>>, pub p: &'a u8 }
impl<'a> View for Formatter<'a> { type V = Seq<char>; closed spec fn view(&self) -> Seq<char> { self.buf@ } }
pub struct VxErr { pub x: u8 }
pub type Result = core::result::Result<(), VxErr>;
// what each formatter writes for the arguments it is given: opaque here (units format / charclass / nested decide them)
pub uninterp spec fn alt_out(e: Expression, options: Seq<Expression>, capturing: bool, colorized: bool, verbose: bool) -> Seq<char>;
pub uninterp spec fn class_out(set: BTreeSet<char>, colorized: bool) -> Seq<char>;
pub uninterp spec fn concat_out(e: Expression, e1: Expression, e2: Expression, capturing: bool, colorized: bool, verbose: bool) -> Seq<char>;
pub uninterp spec fn literal_out(c: GraphemeCluster, escaped: bool, surrogates: bool) -> Seq<char>;
pub uninterp spec fn rep_out(e: Expression, e1: Expression, q: Quantifier, capturing: bool, colorized: bool, verbose: bool) -> Seq<char>;
#[verifier::external_body] pub fn format_alternation(f: &mut Formatter<'_>, expr: &Expression, options: &[Expression], is_capturing_group_enabled: bool, is_output_colorized: bool, is_verbose_mode_enabled: bool) -> (r: Result)
    ensures final(f)@ == old(f)@ + alt_out(*expr, options@, is_capturing_group_enabled, is_output_colorized, is_verbose_mode_enabled) { unimplemented!() }
#[verifier::external_body] pub fn format_character_class(f: &mut Formatter<'_>, char_set: &BTreeSet<char>, is_output_colorized: bool) -> (r: Result)
    ensures final(f)@ == old(f)@ + class_out(*char_set, is_output_colorized) { unimplemented!() }
#[verifier::external_body] pub fn format_concatenation(f: &mut Formatter<'_>, expr: &Expression, expr1: &Expression, expr2: &Expression, is_capturing_group_enabled: bool, is_output_colorized: bool, is_verbose_mode_enabled: bool) -> (r: Result)
    ensures final(f)@ == old(f)@ + concat_out(*expr, *expr1, *expr2, is_capturing_group_enabled, is_output_colorized, is_verbose_mode_enabled) { unimplemented!() }
#[verifier::external_body] pub fn format_literal(f: &mut Formatter<'_>, cluster: &GraphemeCluster, is_non_ascii_char_escaped: bool, is_astral_code_point_converted_to_surrogate: bool) -> (r: Result)
    ensures final(f)@ == old(f)@ + literal_out(*cluster, is_non_ascii_char_escaped, is_astral_code_point_converted_to_surrogate) { unimplemented!() }
#[verifier::external_body] pub fn format_repetition(f: &mut Formatter<'_>, expr: &Expression, expr1: &Expression, quantifier: &Quantifier, is_capturing_group_enabled: bool, is_output_colorized: bool, is_verbose_mode_enabled: bool) -> (r: Result)
    ensures final(f)@ == old(f)@ + rep_out(*expr, *expr1, *quantifier, is_capturing_group_enabled, is_output_colorized, is_verbose_mode_enabled) { unimplemented!() }
// position 1.. of every variant: the settings in the order the constructors write them (capturing, colorized, verbose; escaped, surrogates)
pub open spec fn shown_by_its_formatter(e: Expression) -> Seq<char> {
    match e {
        Expression::Alternation(o, a, b, c) => alt_out(e, o@, a, b, c),
        Expression::CharacterClass(s, b) => class_out(s, b),
        Expression::Concatenation(x, y, a, b, c) => concat_out(e, *x, *y, a, b, c),
        Expression::Literal(cl, a, b) => literal_out(cl, a, b),
        Expression::Repetition(x, q, a, b, c) => rep_out(e, *x, q, a, b, c),
    }
}''')
    fm = b.src('format.rs')
    item, _, _ = X.item(fm, r"^impl Display for Expression<'_> \{")
    body = item[item.index('fn fmt'):]
    body = body[:L.match_close(body, body.index('{')) + 1]
    sig_end = body.index('{')
    b.slice_fn('expression_fmt', "pub fn expression_fmt<'x>(e: &Expression<'x>, f: &mut Formatter<'_>) -> (r: Result)", '    ' + body[sig_end + 1:-1].replace('match self {', 'match e {', 1).replace('                self,\n', '                e,\n'),
               "format.rs::impl Display for Expression, body of fmt (R18: `self` is the parameter `e`)", props=['C07'],
               clauses=[Clause('dispatch.every_variant_goes_to_its_formatter_with_its_settings_in_order', 'final(f)@ == old(f)@ + shown_by_its_formatter(*e)', ['C06', 'C15', 'C11'])])
    b.emit('} // verus!\nfn main() {}')
    b.trusted += ['the five formatters are opaque here (uninterpreted output as a function of their arguments): only WHICH arguments Display for Expression passes is decided; what a formatter writes is decided in units format, charclass, nested, render']
    return b
