"""unit `charclass` (C02): format_character_class writes ranges that denote exactly the members of the class.

Real text under contract (format.rs):
  get_codepoint_position                         whole function (the `CharRange::all().iter().position(..).unwrap()` expression is one specified stand-in)
  the closure `|&it| get_codepoint_position(it)` of `let char_positions = ..`
  format_character_class: the statements from `let mut subsets = vec![];` up to (not including) the final `write!`: both loops (R7 statement range;
                                                 R36 turns the `zip(..).tuple_windows()` header into the index loop it abbreviates)
"""
import re
from vx.assemble import Builder, Clause
from vx import extract as X, rustlex as L, dialect as D
from units import render as R

P = ['C02', 'C16']

def _windows(t, log, w):
    """R36: `for ((A, B), (C, D)) in\n X.iter().zip(Y).tuple_windows()\n {`  =>  `for vx_w in 1..vx_min(X.len(), Y.len()) { let (A, B) = (&X[vx_w - 1], Y[vx_w - 1]); let (C, D) = (&X[vx_w], Y[vx_w]);`"""
    m = re.search(r'for \(\((\w+), (\w+)\), \((\w+), (\w+)\)\) in\s+(\w+)\.iter\(\)\.zip\((\w+)\)\.tuple_windows\(\)\s*\{', t)
    if not m: return t
    a, b_, c, d, xs, ys = m.groups()
    ls = t.rfind('\n', 0, m.start()) + 1
    ind = re.match(r'[ \t]*', t[ls:]).group(0)
    log.add('R36', w, 'for ((a, b), (c, d)) in X.iter().zip(Y).tuple_windows() {', 'for vx_w in 1..vx_min(X.len(), Y.len()) { let (a, b) = (&X[vx_w - 1], Y[vx_w - 1]); let (c, d) = (&X[vx_w], Y[vx_w]); -- the windows of the zipped sequences, in order')
    new = 'for vx_w in 1..vx_min(%s.len(), %s.len()) {\n%s    let (%s, %s) = (&%s[vx_w - 1], %s[vx_w - 1]);\n%s    let (%s, %s) = (&%s[vx_w], %s[vx_w]);' % (xs, ys, ind, a, b_, xs, ys, ind, c, d, xs, ys)
    return t[:m.start()] + new + t[m.end():]

def _pre(t, log, w):
    t = _windows(t, log, w)
    t = D.expand_format_macros(t, log, w)
    t2 = t.replace('let mut subsets = vec![];', 'let mut subsets: Vec<Vec<&String>> = vec![];').replace('let mut subset = vec![];', 'let mut subset: Vec<&String> = vec![];').replace('let mut char_class_strs = vec![];', 'let mut char_class_strs: Vec<String> = vec![];')
    if t2 != t: log.add('R26', w, 'let mut NAME = vec![];', 'element type written out')
    return t2

def build(repo, spec_dir, canary=False):
    b = Builder('charclass', repo, canary)
    LITS = R.spec_literals(spec_dir)
    b.emit('#![feature(allocator_api)]\nuse vstd::prelude::*;\nverus! {')
    b.type_item('quantifier.rs', r'^pub enum Quantifier \{')
    b.type_item('component.rs', r'^pub\(crate\) enum Component \{')
    b.type_item('grapheme.rs', r'^pub struct Grapheme \{')
    b.emit('pub mod fm {\nuse super::*;'); b.emit(open(spec_dir + '/fmt_model.rs').read()); b.emit('}\nuse fm::*;')
    b.emit('pub mod sp {\nuse super::*;'); b.emit(open(spec_dir + '/render.rs').read()); b.emit('}\nuse sp::*;')
    b.emit(open(spec_dir + '/charclass.rs').read())
    b.emit('''impl VxShow for Quantifier { open spec fn shown(&self) -> Seq<char> { quant_plain(*self) } #[verifier::external_body] fn vx_show(&self) -> (r: String) { unimplemented!() } }
impl Component {
    // verified in unit render against exactly this contract
    #[verifier::external_body] pub fn to_repr(&self, is_output_colorized: bool) -> (r: String)
        ensures !is_output_colorized ==> r@ =~= plain(*self), is_output_colorized ==> colored_ok(r@, *self) { unimplemented!() }
}
pub fn vx_min(a: usize, b: usize) -> (r: usize) ensures r == if a <= b { a } else { b } { if a <= b { a } else { b } }
// `CharRange::all().iter().position(|it| it == c).unwrap()`: the index of c in the ascending enumeration of all scalar values (unic-char-range: surrogates skipped)
#[verifier::external_body] pub fn vx_position_among_all_chars(c: char) -> (r: usize) ensures r == rank(c) { unimplemented!() }
#[verifier::external_body] pub fn vx_string_clone(s: &String) -> (r: String) ensures r@ == s@ { unimplemented!() }''')
    fm = b.src('format.rs')
    b.verified_fn('format.rs', 'get_codepoint_position', props=['C07'], fname='get_codepoint_position',
                  extra_rules=[('R19', r'CharRange::all\(\)\s*\.iter\(\)\s*\.position\(\|it\| it == c\)\s*\.unwrap\(\)', 'vx_position_among_all_chars(c)', 'CharRange::all().iter().position(|it| it == c).unwrap(): index among all scalar values in ascending order')],
                  clauses=[Clause('codepoint_position.is_the_rank_among_scalar_values', 'r == rank(c)', P)])
    f, _, _ = X.fn(fm, 'format_character_class')
    st, _, _ = X.let_stmt(f, 'char_positions')
    ce, _, _ = X.closure_expr(st, '.map(|&it| ')
    b.slice_fn('class_position', 'pub fn class_position(it: char) -> (r: usize)', '    ' + ce.strip(), 'format.rs::format_character_class closure |&it| of `let char_positions`', props=['C07'],
               clauses=[Clause('class.positions_are_ranks', 'r == rank(it)', P)])
    body, _, _ = X.stmt_range(f, 'let mut subsets = vec![];', 'write!(')
    seg = 'segmented(subsets@, subsets@.len() as int, escaped_char_set@, char_positions@)'
    b.slice_fn('class_pieces', 'pub fn class_pieces(escaped_char_set: Vec<String>, char_positions: Vec<usize>, is_output_colorized: bool) -> (char_class_strs: Vec<String>)',
               '    ' + body.rstrip() + '\n    char_class_strs', 'format.rs::format_character_class statements `let mut subsets = vec![];` .. (not including) `write!(`', props=['C07'], pre=_pre, reveal=LITS,
               requires=['escaped_char_set@.len() == char_positions@.len()', 'escaped_char_set@.len() != 1', 'forall|i: int| 0 <= i < char_positions@.len() ==> #[trigger] char_positions@[i] < 0x110000'],
               clauses=[Clause('class.ranges_cover_consecutive_members_only', 'exists|s: Seq<Vec<&String>>| #[trigger] segmented(s, s.len() as int, escaped_char_set@, char_positions@) && offset(s, s.len() as int) == escaped_char_set@.len() && (!is_output_colorized ==> exists|a: Seq<bool>| a.len() == s.len() && (forall|k: int| 0 <= k < s.len() && a[k] ==> (#[trigger] s[k])@.len() >= 1) && texts(char_class_strs@) == #[trigger] pieces(s, s.len() as int, "-"@, a))', P)],
               extra_rules=[('R4', r'\(\*c\)\.to_string\(\)', 'vx_string_clone(*c)', '&&String -> String')],
               loops={1: ['escaped_char_set@.len() == char_positions@.len()', 'forall|i: int| 0 <= i < char_positions@.len() ==> #[trigger] char_positions@[i] < 0x110000', 'it1.iter.end == escaped_char_set@.len()',
                          ('class.segmentation@loop1', P, 'segmented(subsets@, subsets@.len() as int, escaped_char_set@, char_positions@)'),
                          ('class.open_subset@loop1', P, '''(it1.index@ == 0 ==> subset@.len() == 0 && subsets@.len() == 0)
                && (it1.index@ > 0 ==> subset@.len() >= 1 && offset(subsets@, subsets@.len() as int) + subset@.len() == it1.index@ + 1 && it1.index@ + 1 <= escaped_char_set@.len()
                    && consecutive(char_positions@, offset(subsets@, subsets@.len() as int), it1.index@ + 1)
                    && forall|j: int| 0 <= j < subset@.len() ==> *#[trigger] subset@[j] == escaped_char_set@[offset(subsets@, subsets@.len() as int) + j])''')],
                      2: ['it2.seq().len() == subsets@.len()', 'forall|k: int| 0 <= k < it2.seq().len() ==> *#[trigger] it2.seq()[k] == subsets@[k]',
                          ('class.pieces@loop2', P, 'vx_choice.len() == it2.index@ && (forall|k: int| 0 <= k < vx_choice.len() && vx_choice[k] ==> (#[trigger] subsets@[k])@.len() >= 1) && (!is_output_colorized ==> texts(char_class_strs@) =~= pieces(subsets@, it2.index@, "-"@, vx_choice))')],
                      3: ['it3.seq().len() == subset@.len()', 'forall|k: int| 0 <= k < it3.seq().len() ==> *#[trigger] it3.seq()[k] == subset@[k]', '*subset == subsets@[it2.index@]', 'vx_choice.len() == it2.index@',
                          ('class.pieces@loop3', P, '!is_output_colorized ==> texts(char_class_strs@) =~= pieces(subsets@, it2.index@, "-"@, vx_choice) + Seq::new(it3.index@ as nat, |i: int| subset@[i]@)')]},
               blocks=[(1, 'loop_start', '        let ghost s0 = subsets@; let ghost sub0 = subset@;'),
                       (3, 'loop_start', '                let ghost c0 = char_class_strs@; let ghost i0 = it3.index@;'),
                       (3, 'loop_end', '''                proof {
                    assert(texts(char_class_strs@) =~= texts(c0).push(subset@[i0]@));
                    assert(Seq::new((i0 + 1) as nat, |i: int| subset@[i]@) =~= Seq::new(i0 as nat, |i: int| subset@[i]@).push(subset@[i0]@));
                }''', ('class.pieces@loop3', P)),
                       (1, 'loop_end', '''        proof {
            if subsets@ != s0 {
                assert(subsets@ =~= s0.push(subsets@[s0.len() as int]));
                lemma_offset_push(s0, subsets@[s0.len() as int]);
                lemma_segmented_push(s0, subsets@[s0.len() as int], escaped_char_set@, char_positions@);
            }
        }''', ('class.segmentation@loop1', P)),
                       (1, 'loop_after', '''    let ghost s1 = subsets@;'''),
                       (2, 'loop_before', '''    proof {
        assert(subsets@ =~= s1.push(subsets@[s1.len() as int]));
        lemma_offset_push(s1, subsets@[s1.len() as int]);
        if escaped_char_set@.len() > 0 { lemma_segmented_push(s1, subsets@[s1.len() as int], escaped_char_set@, char_positions@); }
        else { lemma_segmented_push_empty(s1, subsets@[s1.len() as int], escaped_char_set@, char_positions@); }
    }
    let ghost mut vx_choice: Seq<bool> = Seq::empty();''', ('class.segmentation@loop1', P)),
                       (2, 'loop_start', '        let ghost c2 = char_class_strs@; let ghost k2 = it2.index@; proof { assert(*it2.seq()[k2] == subsets@[k2]); }'),
                       (2, 'loop_end', '''        proof {
            // which form did the code choose for this subset?  (observed, not prescribed)
            let as_range = !(texts(char_class_strs@) =~= texts(c2) + members_text(subset@));
            if !is_output_colorized && as_range {
                assert(subset@.len() >= 1 && texts(char_class_strs@) =~= texts(c2) + range_text(subset@, "-"@)) by {
                    if char_class_strs@.len() == c2.len() + 1 { assert(texts(char_class_strs@) =~= texts(c2).push(char_class_strs@[c2.len() as int]@)); }
                }
            }
            let ch0 = vx_choice;
            vx_choice = vx_choice.push(as_range && !is_output_colorized);
            lemma_pieces_prefix(subsets@, k2, "-"@, ch0, as_range && !is_output_colorized);
        }''', ('class.pieces@loop2', P))])
    b.obligations.append(('class.range_denotes_exactly_the_run', P)); b.obligations.append(('class.rank_is_strictly_monotone', P))
    b.emit('} // verus!\nfn main() {}')
    b.trusted += ['`CharRange::all().iter().position(|it| it == c).unwrap()` is the rank of c among all scalar values in ascending order (unic-char-range iterates over scalar values and skips the surrogate block): stand-in vx_position_among_all_chars',
                  'plumbing of format_character_class outside the slices: `char_set.iter()` visits the BTreeSet in ascending order, `.map(closure).collect_vec()` applies the closure per element (so escaped_char_set[i] and char_positions[i] belong to the i-th member), the final `write!` joins the pieces between the brackets',
                  'the meaning of `x-y` inside a class of the regex crate: all scalar values from x to y inclusive (lemma_range_is_exactly_the_run connects it to the run of members)',
                  'highlighted output: the pieces are only specified for the plain hyphen (the coloured hyphen is covered structurally by unit render)']
    return b
