"""Units built from closure/statement slices: classify (C03), caseconv (C01,C04), display (C04,C06,C08), sortcmp (C10),
repfilter (C13), clustersplit (C07,C01), escape (C11)."""
import re, os
from vx.assemble import Builder, Clause
from vx import extract as X

HELPERS = r'''
#[verifier::external_body] pub fn vx_char_to_string(c: char) -> (r: String) ensures r@ == seq![c] { unimplemented!() }
#[verifier::external_body] pub fn vx_string_clone(s: &String) -> (r: String) ensures r@ == s@ { unimplemented!() }
#[verifier::external_body] pub fn vx_char_count(s: &str) -> (r: usize) ensures r == s@.len() { unimplemented!() }
pub uninterp spec fn char_total(v: Seq<String>) -> nat;      // the total number of code points of a list of strings
#[verifier::external_body] pub fn vx_sum_char_counts(v: &Vec<String>) -> (r: usize) ensures r == char_total(v@) { unimplemented!() }
#[verifier::external_body] pub fn vx_str_contains_char(s: &str, c: char) -> (r: bool) ensures r == s@.contains(c) { unimplemented!() }
#[verifier::external_body] pub fn vx_str_ends_with_char(s: &str, c: char) -> (r: bool) ensures r == (s@.len() > 0 && s@.last() == c) { unimplemented!() }
#[verifier::external_body] pub fn vx_str_starts_with_char(s: &str, c: char) -> (r: bool) ensures r == (s@.len() > 0 && s@[0] == c) { unimplemented!() }
pub uninterp spec fn ascii_fold(s: Seq<char>) -> Seq<char>;
pub assume_specification [str::eq_ignore_ascii_case] (a: &str, b: &str) -> (r: bool) ensures r == (ascii_fold(a@) == ascii_fold(b@));
#[verifier::external_body] pub fn vx_string_eq_lit(s: &String, lit: &str) -> (r: bool) ensures r == (s@ == lit@) { unimplemented!() }
#[verifier::external_body] pub fn vx_range_contains(lo: char, hi: char, inclusive: bool, x: &char) -> (r: bool)
    ensures r == (lo <= *x && (if inclusive { *x <= hi } else { *x < hi })) { unimplemented!() }
pub uninterp spec fn spec_escape_unicode(c: char) -> Seq<char>;
#[verifier::external_body] pub fn vx_escape_unicode(c: char) -> (r: String) ensures r@ == spec_escape_unicode(c) { unimplemented!() }
#[verifier::external_body] pub fn vx_str_to_string(s: &str) -> (r: String) ensures r@ == s@ { unimplemented!() }
pub assume_specification [<char>::is_ascii] (c: &char) -> (r: bool) ensures r == ((*c as u32) < 128);
'''

# ---------------------------------------------------------------- classify (C03)
def build_classify(repo, spec_dir, canary=False):
    b = Builder('classify', repo, canary)
    b.emit('use vstd::prelude::*;\nverus! {')
    b.emit(HELPERS)
    b.emit(open(spec_dir + '/tables_spec.rs').read() if False else '')
    b.emit(r'''
pub uninterp spec fn digit(c: char) -> bool;
pub uninterp spec fn word(c: char) -> bool;
pub uninterp spec fn space(c: char) -> bool;
#[verifier::external_body] pub fn is_digit(c: char) -> (r: bool) ensures r == digit(c) { unimplemented!() }
#[verifier::external_body] pub fn is_word(c: char) -> (r: bool) ensures r == word(c) { unimplemented!() }
#[verifier::external_body] pub fn is_space(c: char) -> (r: bool) ensures r == space(c) { unimplemented!() }
pub enum Tok { D, W, S, ND, NW, NS, Lit }
pub open spec fn tok_str(t: Tok, c: char) -> Seq<char> {
    match t { Tok::D => "\\d"@, Tok::W => "\\w"@, Tok::S => "\\s"@, Tok::ND => "\\D"@, Tok::NW => "\\W"@, Tok::NS => "\\S"@, Tok::Lit => seq![c] }
}
// the documented precedence (builder.rs docs / README): digit, word, whitespace, non-digit, non-word, non-whitespace
pub open spec fn documented(c: char, d: bool, nd: bool, s: bool, ns: bool, w: bool, nw: bool) -> Tok {
    if d && digit(c) { Tok::D } else if w && word(c) { Tok::W } else if s && space(c) { Tok::S }
    else if nd && !digit(c) { Tok::ND } else if nw && !word(c) { Tok::NW } else if ns && !space(c) { Tok::NS } else { Tok::Lit }
}
// every converted token's class contains the character it was derived from
pub open spec fn tok_contains(t: Tok, c: char) -> bool {
    match t { Tok::D => digit(c), Tok::W => word(c), Tok::S => space(c), Tok::ND => !digit(c), Tok::NW => !word(c), Tok::NS => !space(c), Tok::Lit => true }
}
pub proof fn conversion_sound(c: char, d: bool, nd: bool, s: bool, ns: bool, w: bool, nw: bool)
    ensures tok_contains(documented(c, d, nd, s, ns, w, nw), c)
{}
''')
    b.obligations.append(('classify.conversion_sound', ['C03', 'C09']))
    cl = b.src('cluster.rs')
    body, _, _ = X.expr_chain_from(cl, 'if is_digit_converted && is_digit(c)')
    flags = 'is_digit_converted, is_non_digit_converted, is_space_converted, is_non_space_converted, is_word_converted, is_non_word_converted'
    b.slice_fn('classify', 'pub fn classify(c: char, ' + ', '.join(f + ': bool' for f in flags.split(', ')) + ') -> (r: String)', body,
               'cluster.rs::convert_to_char_classes closure |c|', props=['C07'],
               clauses=[Clause('classify.precedence', 'r@ == tok_str(documented(c, %s), c)' % flags, ['C03', 'C09'])],
               extra_rules=[('R4', r'\bc\.to_string\(\)', 'vx_char_to_string(c)', 'char -> one-char String')])
    # the six flag reads
    b.type_item('config.rs', r'^pub struct RegExpConfig \{')
    fnt, _, _ = X.fn(cl, 'convert_to_char_classes')
    reads = ''.join(X.let_stmt(fnt, f)[0] + '\n' for f in flags.split(', '))
    b.type_item('grapheme.rs', r'^pub struct Grapheme \{')
    b.type_item('cluster.rs', r"^pub struct GraphemeCluster<'a> \{")
    b.emit("impl<'a> GraphemeCluster<'a> {")
    b.slice_fn('flag_reads', 'pub fn flag_reads(&self) -> (r: (bool, bool, bool, bool, bool, bool))', reads, 'cluster.rs::convert_to_char_classes let-statements',
               props=['C07'], epilogue='(%s)' % flags,
               clauses=[Clause('classify.flag_reads', 'r == (self.config.is_digit_converted, self.config.is_non_digit_converted, self.config.is_space_converted, self.config.is_non_space_converted, self.config.is_word_converted, self.config.is_non_word_converted)', ['C03'])])
    b.emit('}\n} // verus!\nfn main() {}')
    b.trusted += ['closure plumbing dropped: chars().map(closure).join("") applies the closure per code point, in order',
                  'is_digit/is_word/is_space equal digit/word/space (discharged by unit tables / Kani look-ups for C09)']
    return b

# ---------------------------------------------------------------- escape (C11)
def build_escape(repo, spec_dir, canary=False):
    b = Builder('escape', repo, canary)
    b.emit('use vstd::prelude::*;\nverus! {')
    b.emit(HELPERS)
    b.type_item('grapheme.rs', r'^pub struct Grapheme \{')
    b.emit(r'''
pub uninterp spec fn spec_surrogates(c: char) -> Seq<char>;
// property C11: what escaping one code point must produce
pub open spec fn escape_spec(c: char, sp: bool) -> Seq<char> {
    if (c as u32) < 0x80 { seq![c] }
    else if sp && 0x10000 <= (c as u32) <= 0x10FFFF { spec_surrogates(c) }
    else { spec_escape_unicode(c) }
}
#[verifier::external_body] pub fn vx_utf16_units_as_escapes(c: char) -> (r: String) ensures r@ == spec_surrogates(c) { unimplemented!() }
impl Grapheme {''')
    G = r'^impl Grapheme \{'
    # convert_to_surrogate_pair: whole function; its one expression -- the UTF-16 code units of c, each written as \\u{hex} -- is one specified stand-in.
    # Any other body (hand-written surrogate arithmetic, another format) is outside the dialect: UNDECIDED, never silently accepted.
    SUR = r'c\.encode_utf16\(&mut \[0; 2\]\)\s*\.iter\(\)\s*\.map\(\|it\| format!\("\\\\u\{\{\{:x\}\}\}", it\)\)\s*\.join\(""\)'
    cs, _, _ = X.fn(b.src('grapheme.rs'), 'convert_to_surrogate_pair', within=G)
    if not re.search(SUR, cs): raise X.LostAnchor('grapheme.rs::convert_to_surrogate_pair: the body is no longer `c.encode_utf16(..).iter().map(|it| format!("\\u{{{:x}}}", it)).join("")` (another way of computing the surrogates cannot be judged against the uninterpreted `spec_surrogates`)')
    b.verified_fn('grapheme.rs', 'convert_to_surrogate_pair', within=G, props=['C07'], fname='Grapheme::convert_to_surrogate_pair',
                  clauses=[Clause('escape.surrogate_pair_is_the_utf16_encoding', 'r@ == spec_surrogates(c)', ['C11'])],
                  extra_rules=[('R19', r'c\.encode_utf16\(&mut \[0; 2\]\)\s*\.iter\(\)\s*\.map\(\|it\| format!\("\\\\u\{\{\{:x\}\}\}", it\)\)\s*\.join\(""\)', 'vx_utf16_units_as_escapes(c)', 'char::encode_utf16 + `\\u{{{:x}}}` per code unit + join: the UTF-16 code units of c, each as \\u{hex} (spec_surrogates, uninterpreted)')])
    b.verified_fn('grapheme.rs', 'escape', within=G, props=['C07'], fname='Grapheme::escape',
                  clauses=[Clause('escape.post', 'r@ == escape_spec(c, use_surrogate_pairs)', ['C11'])],
                  extra_rules=[('R4', r'\bc\.to_string\(\)', 'vx_char_to_string(c)', 'char -> one-char String')])
    b.emit('}\n} // verus!\nfn main() {}')
    b.trusted += ['std: char::is_ascii, Range/RangeInclusive<char>::contains, escape_unicode rendering, encode_utf16 (uninterpreted)']
    return b

# ---------------------------------------------------------------- small units built from slices (one Verus file each, so that a
# construct outside the dialect in one slice does not make the others undecided)
def _start(name, repo, canary):
    b = Builder(name, repo, canary)
    b.emit('use vstd::prelude::*;\nuse std::cmp::Ordering;\nverus! {')
    b.emit(HELPERS)
    return b

def build_caseconv(repo, spec_dir, canary=False):
    """C01/C04: lower-casing of a test case only when the code-point count is preserved"""
    b = _start('caseconv', repo, canary)
    b.emit(r"""
pub uninterp spec fn lower(s: Seq<char>) -> Seq<char>;
pub assume_specification [str::to_lowercase] (s: &str) -> (r: String) ensures r@ == lower(s@);
pub uninterp spec fn byte_len(s: Seq<char>) -> nat;     // UTF-8 length: NOT the number of code points
pub assume_specification [String::len] (s: &String) -> (r: usize) ensures r == byte_len(s@);
""")
    rx = b.src('regexp.rs')
    f, _, _ = X.fn(rx, 'convert_for_case_insensitive_matching')
    body, _, _ = X.block_after(f, '.map(|it| ')
    b.slice_fn('caseconv', 'pub fn caseconv(it: &String) -> (r: String)', body[1:-1], 'regexp.rs::convert_for_case_insensitive_matching closure |it|', props=['C07'],
               clauses=[Clause('caseconv.count', 'r@.len() == it@.len()', ['C01', 'C04']),
                        Clause('caseconv.choice', 'r@ == it@ || r@ == lower(it@)', ['C04']),
                        Clause('caseconv.lowered', 'lower(it@).len() == it@.len() ==> r@ == lower(it@)', ['C04'])],
               extra_rules=[('R4', r'\bit\.to_string\(\)', 'vx_string_clone(it)', '&String -> String copy'),
                            ('R5b', r'vx_char_count\(&it\)', 'vx_char_count(it)', '')])
    b.emit('} // verus!\nfn main() {}')
    b.trusted += ['closure plumbing dropped: iter().map(closure).collect_vec() applies the closure per element, in order',
                  'std: str::to_lowercase (uninterpreted `lower`), chars().count() = number of scalar values, String::len = UTF-8 length (uninterpreted)']
    return b

def build_split(repo, spec_dir, canary=False):
    """C07/C01: every multi-code-point grapheme cluster containing a backslash is split; a lone backslash is doubled"""
    b = _start('split', repo, canary)
    cl = b.src('cluster.rs')
    st, _, _ = X.let_stmt(cl, 'contains_backslash')
    b.emit('pub open spec fn must_split_for_backslash(it: Seq<char>) -> bool { it.len() >= 2 && it.contains(\'\\\\\') }')
    b.slice_fn('split_rule', 'pub fn split_rule(it: &str) -> (contains_backslash: bool)', '    ' + st, 'cluster.rs::GraphemeCluster::from let contains_backslash', props=['C07'],
               epilogue='    contains_backslash', clauses=[Clause('cluster_split.rule', 'must_split_for_backslash(it@) ==> contains_backslash', ['C07', 'C01'])],
               extra_rules=[('R5b', r'vx_char_count\(&it\)', 'vx_char_count(it)', '')])
    gf, _, _ = X.fn(cl, 'from', within="^impl<'a> GraphemeCluster<'a> \\{")
    cond, _, _ = X.if_condition(gf, 'if contains_backslash')
    b.slice_fn('split_branch', 'pub fn split_branch(contains_backslash: bool, contains_combining_mark_or_unassigned_chars: bool) -> (r: bool)', '    ' + cond,
               'cluster.rs::GraphemeCluster::from condition of the split branch', props=['C07'],
               clauses=[Clause('cluster_split.branch', 'contains_backslash ==> r', ['C07', 'C01']),
                        Clause('cluster_split.branch_marks', 'contains_combining_mark_or_unassigned_chars ==> r', ['C07', 'C01'])])
    # the closure that decides "contains a combining mark or an unassigned/control/format/... code point": every mark (Mn, Mc, Me) and every `other` (Cc, Cf, Cs, Co, Cn)
    # category must trigger the split.  The category enum and its two predicates are READ from the unic-ucd-category source the lock file pins.
    import glob as _glob
    lock = open(os.path.join(repo, 'Cargo.lock')).read()
    vm = re.search(r'name = "unic-ucd-category"\nversion = "([^"]+)"', lock)
    cands = _glob.glob(os.path.expanduser('~/.cargo/registry/src/*/unic-ucd-category-%s/src/category.rs' % (vm.group(1) if vm else '*')))
    if not cands: raise X.LostAnchor('unic-ucd-category source (cargo registry)')
    cat_src = open(cands[0]).read()
    variants = re.findall(r'\n\s+(\w+) \{\s*\n\s+abbr => (\w+),', cat_src)
    def abbrs(fn):
        mm = re.search(r'pub fn %s\(&self\) -> bool \{\s*use self::abbr_names::\*;\s*matches!\(\*self, ([^)]*)\)' % fn, cat_src)
        if not mm: raise X.LostAnchor('unic-ucd-category::GeneralCategory::%s' % fn)
        return [x.strip() for x in mm.group(1).split('|')]
    long_of = {a: l for l, a in variants}
    if len(variants) < 25: raise X.LostAnchor('unic-ucd-category: GeneralCategory variants')
    marks, others = [long_of[a] for a in abbrs('is_mark')], [long_of[a] for a in abbrs('is_other')]
    b.log.add('R9', 'unic-ucd-category::GeneralCategory', '%d variants; is_mark = %s; is_other = %s' % (len(variants), '|'.join(marks), '|'.join(others)), 'stand-in enum with the same variants and predicates (read from the dependency source)')
    b.emit('#[derive(PartialEq, Eq, Clone, Copy)] pub enum GeneralCategory { %s }' % ', '.join(l for l, _ in variants))
    b.emit('pub uninterp spec fn category_of(c: char) -> GeneralCategory;')
    b.emit('pub open spec fn cat_is_mark(g: GeneralCategory) -> bool { %s }' % ' || '.join('g is %s' % v for v in marks))
    b.emit('pub open spec fn cat_is_other(g: GeneralCategory) -> bool { %s }' % ' || '.join('g is %s' % v for v in others))
    b.emit('''impl GeneralCategory {
    #[verifier::external_body] pub fn of(c: char) -> (r: GeneralCategory) ensures r == category_of(c) { unimplemented!() }
    pub fn is_mark(&self) -> (r: bool) ensures r == cat_is_mark(*self) { matches!(*self, %s) }
    pub fn is_other(&self) -> (r: bool) ensures r == cat_is_other(*self) { matches!(*self, %s) }
}''' % (' | '.join('GeneralCategory::' + v for v in marks), ' | '.join('GeneralCategory::' + v for v in others)))
    anyc, _, _ = X.block_after(gf, '.any(|c| ')
    b.slice_fn('split_mark_or_other', 'pub fn split_mark_or_other(c: char) -> (r: bool)', '    ' + anyc, 'cluster.rs::GraphemeCluster::from closure |c| of `it.chars().any(..)`', props=['C07'],
               clauses=[Clause('cluster_split.every_mark_and_other_category_splits', 'r == (cat_is_mark(category_of(c)) || cat_is_other(category_of(c)))', ['C01', 'C11', 'C07'])])
    gr = b.src('grapheme.rs')
    ef, _, _ = X.fn(gr, 'escape_regexp_symbols')
    st, _, _ = X.if_stmt(ef, 'if character == "\\\\"')
    b.slice_fn('backslash_doubling', 'pub fn backslash_doubling(character0: String) -> (character: String)', '    let mut character = character0;\n    ' + st + '\n    character',
               'grapheme.rs::escape_regexp_symbols statement `if character == "\\\\" { .. }`', props=['C07'],
               clauses=[Clause('cluster_split.lone_backslash_doubled', 'character0@ == "\\\\"@ ==> character@ == "\\\\\\\\"@', ['C07', 'C01']),
                        Clause('cluster_split.others_untouched', 'character0@ != "\\\\"@ ==> character@ == character0@', ['C07', 'C01'])],
               extra_rules=[('R12', r'\bcharacter == ("(?:[^"\\]|\\.)*")', r'vx_string_eq_lit(&character, \1)', 'PartialEq<str> for String'),
                            ('R4', r'("(?:[^"\\]|\\.)*")\.to_string\(\)', r'vx_str_to_string(\1)', '&str -> String copy')])
    b.emit('} // verus!\nfn main() {}')
    b.trusted += ['the split branch maps every code point of the cluster to its own grapheme (closure plumbing dropped by the slice)',
                  'std: chars().count(), str::contains/ends_with/starts_with(char), String == str']
    return b

def build_rep(repo, spec_dir, canary=False):
    """C13: thresholds (strict count filter, substring-length guard), no quantifier without the option"""
    b = _start('rep', repo, canary)
    b.type_item('config.rs', r'^pub struct RegExpConfig \{')
    cl, rx = b.src('cluster.rs'), b.src('regexp.rs')
    f, _, _ = X.fn(cl, 'create_ranges_of_repetitions')
    body, _, _ = X.block_after(f, '.filter(|range| ')
    b.slice_fn('rep_filter', 'pub fn rep_filter(range: &core::ops::Range<usize>, prefix_length: usize, config: &RegExpConfig) -> (r: bool)', body[1:-1],
               'cluster.rs::create_ranges_of_repetitions filter closure', props=['C07'],
               requires=['range.start <= range.end', 'prefix_length > 0', '(range.end - range.start) / (prefix_length as int) <= u32::MAX'],
               clauses=[Clause('rep_filter.strict', 'r == (((range.end - range.start) / (prefix_length as int)) > config.minimum_repetitions)', ['C13'])])
    b.type_item('grapheme.rs', r'^pub struct Grapheme \{')
    b.emit('impl Grapheme {')
    b.verified_fn('grapheme.rs', 'from', within=r'^impl Grapheme \{', props=['C07'], fname='Grapheme::from',
                  clauses=[Clause('grapheme_from.no_quantifier', 'r.min == 1 && r.max == 1 && r.repetitions@.len() == 0', ['C13']),
                           Clause('grapheme_from.value', 'r.chars@.len() == 1 && r.chars@[0]@ == s@', ['C13', 'C01']),
                           Clause('grapheme_from.flags', 'r.is_capturing_group_enabled == is_capturing_group_enabled && r.is_output_colorized == is_output_colorized && r.is_verbose_mode_enabled == is_verbose_mode_enabled', ['C06'])],
                  extra_rules=[('R4', r'\bs\.to_string\(\)', 'vx_str_to_string(s)', '&str -> String copy')])
    b.emit('}')
    gcf, _, _ = X.fn(rx, 'grapheme_clusters')
    # the `if` that guards the loop calling convert_repetitions
    k = gcf.find('cluster.convert_repetitions()')
    if k < 0: raise X.LostAnchor('regexp.rs::grapheme_clusters call of convert_repetitions')
    i0 = gcf.rfind('\n        if ', 0, k)
    if i0 < 0: raise X.LostAnchor('regexp.rs::grapheme_clusters guard of convert_repetitions')
    cond, _, _ = X.if_condition(gcf[i0 + 1:], 'if ')
    b.slice_fn('rep_gate', 'pub fn rep_gate(config: &RegExpConfig) -> (r: bool)', '    ' + cond, 'regexp.rs::grapheme_clusters condition guarding convert_repetitions', props=['C07'],
               clauses=[Clause('rep_gate.only_on_request', 'r == config.is_repetition_converted', ['C13', 'C05'])])
    rf, _, _ = X.fn(cl, 'replace_graphemes_with_repetitions')
    # the guard of the `continue` in the splice loop (anchored structurally: the if-statement whose block is just `continue;`)
    import re as _re
    m = _re.search(r'\n([ \t]*)if ([^{}]+?) \{\s*continue;\s*\}', rf)
    if not m: raise X.LostAnchor('cluster.rs::replace_graphemes_with_repetitions guard of continue')
    cond = m.group(2).strip()
    lets = []
    for lm in _re.finditer(r'\n[ \t]*(let (\w+)(?:: \w+)? = [^;]*;)', rf[:m.start()]):
        if _re.search(r'\b%s\b' % lm.group(2), cond) and lm.group(2) not in ('substr', 'config'): lets.append(lm.group(1))
    b.slice_fn('substr_guard', 'pub fn substr_guard(substr: &Vec<String>, config: &RegExpConfig) -> (skip: bool)', ''.join('    ' + l + '\n' for l in lets) + '    ' + cond,
               'cluster.rs::replace_graphemes_with_repetitions guard of `continue`', props=['C07'],
               clauses=[Clause('substr_guard.strict', 'skip == (substr@.len() < config.minimum_substring_length)', ['C13'])])
    b.emit('} // verus!\nfn main() {}')
    b.trusted += ['closure plumbing dropped for rep_filter (filter applies the closure per element); that the guarded `continue` skips the splice is not decided here']
    return b

def build_gates(repo, spec_dir, canary=False):
    """C03: class conversion runs whenever one of the six conversion options is set"""
    b = _start('gates', repo, canary)
    b.type_item('config.rs', r'^pub struct RegExpConfig \{')
    rx = b.src('regexp.rs')
    six = '(%s.is_digit_converted || %s.is_non_digit_converted || %s.is_space_converted || %s.is_non_space_converted || %s.is_word_converted || %s.is_non_word_converted)'
    b.emit('impl RegExpConfig {')
    b.emit('}\npub open spec fn class_feature(c: RegExpConfig) -> bool { c.is_digit_converted || c.is_non_digit_converted || c.is_space_converted || c.is_non_space_converted || c.is_word_converted || c.is_non_word_converted }\nimpl RegExpConfig {')
    b.verified_fn('config.rs', 'is_char_class_feature_enabled', within=r'^impl RegExpConfig \{', props=['C07'], fname='RegExpConfig::is_char_class_feature_enabled',
                  clauses=[Clause('class_gate.enabled_when_requested', 'class_feature(*self) ==> r', ['C03', 'C16'])])
    b.verified_fn('config.rs', 'new', within=r'^impl RegExpConfig \{', props=['C07'], fname='RegExpConfig::new',
                  clauses=[Clause('config.defaults', 'r.minimum_repetitions == 1 && r.minimum_substring_length == 1 && !r.is_digit_converted && !r.is_non_digit_converted && !r.is_space_converted && !r.is_non_space_converted && !r.is_word_converted && !r.is_non_word_converted && !r.is_repetition_converted && !r.is_case_insensitive_matching && !r.is_capturing_group_enabled && !r.is_non_ascii_char_escaped && !r.is_astral_code_point_converted_to_surrogate && !r.is_verbose_mode_enabled && !r.is_start_anchor_disabled && !r.is_end_anchor_disabled && !r.is_output_colorized', ['C02', 'C10', 'C12'])])
    b.emit('}')
    gcf, _, _ = X.fn(rx, 'grapheme_clusters')
    k = gcf.find('cluster.convert_to_char_classes()')
    if k < 0: raise X.LostAnchor('regexp.rs::grapheme_clusters call of convert_to_char_classes')
    i0 = gcf.rfind('\n        if ', 0, k)
    cond2, _, _ = X.if_condition(gcf[i0 + 1:], 'if ')
    b.slice_fn('class_gate', 'pub fn class_gate(config: &RegExpConfig) -> (r: bool)', '    ' + cond2, 'regexp.rs::grapheme_clusters condition guarding convert_to_char_classes', props=['C07'],
               clauses=[Clause('class_gate.calls_conversion', (six % (('config',) * 6)) + ' ==> r', ['C03'])])
    b.emit('} // verus!\nfn main() {}')
    return b

ORDER_SPEC = r'''
pub uninterp spec fn str_cmp(a: Seq<char>, b: Seq<char>) -> Ordering;          // <String as Ord>::cmp
pub uninterp spec fn byte_len(a: Seq<char>) -> nat;                            // String::len (UTF-8 length)
// ASSUMED of std: String's Ord is a total order that is Equal exactly on identical strings
pub broadcast axiom fn axiom_str_cmp_total(a: Seq<char>, b: Seq<char>)
    ensures (#[trigger] str_cmp(a, b) == Ordering::Equal) <==> a == b,
            (str_cmp(a, b) == Ordering::Less) <==> (str_cmp(b, a) == Ordering::Greater);
pub broadcast axiom fn axiom_str_cmp_trans(a: Seq<char>, b: Seq<char>, c: Seq<char>)
    requires #[trigger] str_cmp(a, b) == Ordering::Less, #[trigger] str_cmp(b, c) == Ordering::Less
    ensures str_cmp(a, c) == Ordering::Less;
#[verifier::external_body] pub fn vx_str_cmp(a: &String, b: &String) -> (r: Ordering) ensures r == str_cmp(a@, b@) { unimplemented!() }
#[verifier::external_body] pub fn vx_usize_cmp(a: usize, b: usize) -> (r: Ordering)
    ensures r == (if a < b { Ordering::Less } else if a == b { Ordering::Equal } else { Ordering::Greater }) { unimplemented!() }
#[verifier::external_body] pub fn vx_len(a: &String) -> (r: usize) ensures r == byte_len(a@) { unimplemented!() }
// the documented order of the test cases: by length, ties broken lexicographically
pub open spec fn len_lex(a: Seq<char>, b: Seq<char>) -> Ordering {
    if byte_len(a) < byte_len(b) { Ordering::Less } else if byte_len(a) > byte_len(b) { Ordering::Greater } else { str_cmp(a, b) }
}
pub open spec fn strictly_sorted(s: Seq<Seq<char>>) -> bool {
    forall|i: int, j: int| 0 <= i < j < s.len() ==> len_lex(#[trigger] s[i], #[trigger] s[j]) == Ordering::Less
}
'''
ORDER_LEMMAS = [('order.len_lex_no_ties', r'''pub proof fn len_lex_no_ties(a: Seq<char>, b: Seq<char>)
    ensures (len_lex(a, b) == Ordering::Equal) <==> a == b,
            (len_lex(a, b) == Ordering::Less) <==> (len_lex(b, a) == Ordering::Greater),
{
    broadcast use axiom_str_cmp_total;
}'''), ('order.len_lex_transitive', r'''pub proof fn len_lex_trans(a: Seq<char>, b: Seq<char>, c: Seq<char>)
    requires len_lex(a, b) == Ordering::Less, len_lex(b, c) == Ordering::Less
    ensures len_lex(a, c) == Ordering::Less
{
    broadcast use axiom_str_cmp_total;
    if byte_len(a) == byte_len(b) && byte_len(b) == byte_len(c) { axiom_str_cmp_trans(a, b, c); }
}'''), ('order.sorted_arrangement_unique', r'''// two strictly increasing arrangements of the same set of strings are equal: the sorted, deduplicated list is a function of the SET
pub proof fn sorted_unique(s: Seq<Seq<char>>, t: Seq<Seq<char>>)
    requires strictly_sorted(s), strictly_sorted(t), s.to_set() == t.to_set()
    ensures s == t
    decreases s.len()
{
    broadcast use axiom_str_cmp_total;
    if s.len() == 0 {
        if t.len() > 0 { assert(t.to_set().contains(t[0])); assert(s.to_set().contains(t[0])); }
        assert(s =~= t);
    } else if t.len() == 0 {
        assert(s.to_set().contains(s[0])); assert(t.to_set().contains(s[0]));
    } else {
        assert(t.to_set().contains(s[0])) by { assert(s.to_set().contains(s[0])); }
        assert(s.to_set().contains(t[0])) by { assert(t.to_set().contains(t[0])); }
        let i = choose|i: int| 0 <= i < t.len() && t[i] == s[0];
        let j = choose|j: int| 0 <= j < s.len() && s[j] == t[0];
        if i > 0 { assert(len_lex(t[0], t[i]) == Ordering::Less); }
        if j > 0 { assert(len_lex(s[0], s[j]) == Ordering::Less); }
        if i > 0 && j > 0 { len_lex_no_ties(s[0], t[0]); }
        if i > 0 && j == 0 { len_lex_no_ties(t[0], t[0]); }
        assert(s[0] == t[0]);
        let s1 = s.drop_first(); let t1 = t.drop_first();
        assert(strictly_sorted(s1)) by { assert forall|a: int, b: int| 0 <= a < b < s1.len() implies len_lex(#[trigger] s1[a], #[trigger] s1[b]) == Ordering::Less by { assert(s1[a] == s[a+1] && s1[b] == s[b+1]); } }
        assert(strictly_sorted(t1)) by { assert forall|a: int, b: int| 0 <= a < b < t1.len() implies len_lex(#[trigger] t1[a], #[trigger] t1[b]) == Ordering::Less by { assert(t1[a] == t[a+1] && t1[b] == t[b+1]); } }
        assert(s1.to_set() =~= t1.to_set()) by {
            assert forall|x: Seq<char>| s1.to_set().contains(x) <==> t1.to_set().contains(x) by {
                if s1.contains(x) {
                    let k = choose|k: int| 0 <= k < s1.len() && s1[k] == x;
                    assert(s[k + 1] == x); assert(len_lex(s[0], x) == Ordering::Less);
                    assert(s.to_set().contains(x)); assert(t.to_set().contains(x));
                    let m = choose|m: int| 0 <= m < t.len() && t[m] == x;
                    if m == 0 { len_lex_no_ties(s[0], x); }
                    assert(t1[m - 1] == x);
                }
                if t1.contains(x) {
                    let k = choose|k: int| 0 <= k < t1.len() && t1[k] == x;
                    assert(t[k + 1] == x); assert(len_lex(t[0], x) == Ordering::Less);
                    assert(t.to_set().contains(x)); assert(s.to_set().contains(x));
                    let m = choose|m: int| 0 <= m < s.len() && s[m] == x;
                    if m == 0 { len_lex_no_ties(t[0], x); }
                    assert(s1[m - 1] == x);
                }
            }
        }
        sorted_unique(s1, t1);
        assert(s =~= seq![s[0]] + s1); assert(t =~= seq![t[0]] + t1);
    }
}''')]

def build_order(repo, spec_dir, canary=False):
    """C10: the comparator of RegExp::sort is the documented (length, lexicographic) order; it is a strict total order without ties,
    so the sorted, deduplicated list is a function of the set of test cases"""
    b = Builder('order', repo, canary)
    b.emit('use vstd::prelude::*;\nuse std::cmp::Ordering;\nverus! {')
    b.emit(ORDER_SPEC)
    for label, text in ORDER_LEMMAS: b.lemma(label, ['C10'], text)
    rx = b.src('regexp.rs')
    f, _, _ = X.fn(rx, 'sort')
    body, _, _ = X.match_expr_after(f, 'test_cases.sort_by(|a, b| ')
    b.slice_fn('sort_cmp', 'pub fn sort_cmp(a: &String, b: &String) -> (r: Ordering)', '    ' + body, 'regexp.rs::sort comparator closure |a, b|', props=['C07'],
               clauses=[Clause('order.comparator_is_len_lex', 'r == len_lex(a@, b@)', ['C10'])],
               extra_rules=[('R11', r'\ba\.len\(\)\.cmp\(&b\.len\(\)\)', 'vx_usize_cmp(vx_len(a), vx_len(b))', 'Ord for usize (exact), String::len (uninterpreted)'),
                            ('R11', r'\ba\.cmp\(b\)', 'vx_str_cmp(a, b)', 'Ord for String (uninterpreted total order)')])
    # ---- the whole function: sort(); dedup(); sort_by(closure)
    b.emit(open(spec_dir + '/order_sort.rs').read())
    b.emit('''#[verifier::external_body] pub fn vx_sort(v: &mut Vec<String>) ensures permutation_of(texts(final(v)@), texts(old(v)@)), sorted_by_str(texts(final(v)@)) { unimplemented!() }
#[verifier::external_body] pub fn vx_dedup(v: &mut Vec<String>) ensures deduped_from(texts(final(v)@), texts(old(v)@)) { unimplemented!() }
#[verifier::external_body] pub fn vx_sort_by<F: Fn(&String, &String) -> Ordering>(v: &mut Vec<String>, f: F)
    requires forall|a: &String, b: &String| f.requires((a, b))
    ensures permutation_of(texts(final(v)@), texts(old(v)@)),
            forall|i: int, j: int| 0 <= i < j < final(v)@.len() ==> #[trigger] in_order(f, final(v)@[i], final(v)@[j]) { unimplemented!() }
pub open spec fn in_order<F: Fn(&String, &String) -> Ordering>(f: F, x: String, y: String) -> bool { exists|o: Ordering| #[trigger] f.ensures((&x, &y), o) && o != Ordering::Greater }''')
    def sort_pre(t, log, w):
        t2 = re.sub(r'\btest_cases\.sort\(\);', 'vx_sort(test_cases);', t)
        t2 = re.sub(r'\btest_cases\.dedup\(\);', 'vx_dedup(test_cases);', t2)
        if t2 != t: log.add('R19', w, 'v.sort(); / v.dedup();', 'vx_sort(v); / vx_dedup(v); -- std semantics as documented (permutation + non-decreasing; consecutive duplicates removed)')
        m = re.search(r'\btest_cases\.sort_by\(\|(\w+), (\w+)\| ', t2)
        if not m: raise X.LostAnchor('regexp.rs::sort: test_cases.sort_by(|a, b| ..)')
        from vx import rustlex as L
        po = t2.index('(', m.start() + len('test_cases.sort_by') - 1); pc = L.match_close(t2, po)
        body = t2[m.end():pc]
        log.add('R35', w, 'v.sort_by(closure)', 'vx_sort_by(v, closure): the closure keeps its text and gets parameter types and a checked contract')
        a, b_ = m.group(1), m.group(2)
        ls = t2.rfind('\n', 0, m.start()) + 1
        ind = re.match(r'[ \t]*', t2[ls:]).group(0)
        log.add('R29', w, 'vx_sort_by(v, CLOSURE)', 'let vx_f = CLOSURE; vx_sort_by(v, vx_f)  (the closure captures nothing; ghost code names it)')
        return t2[:ls] + ind + 'let vx_f = |%s: &String, %s: &String| -> (vx_o: Ordering) ensures /*#order.comparator_is_len_lex_in_place#*/ vx_o == len_lex(%s@, %s@) { %s };\n' % (a, b_, a, b_, body.strip()) + t2[ls:m.start()] + 'vx_sort_by(test_cases, vx_f)' + t2[pc + 1:]
    b.emit('pub struct RegExp { pub x: u8 }\nimpl RegExp {')
    b.verified_fn('regexp.rs', 'sort', within=r"^impl<'a> RegExp<'a> \{", props=['C07'], fname='RegExp::sort', pre=sort_pre,
                  extra_rules=[('R11', r'\ba\.len\(\)\.cmp\(&b\.len\(\)\)', 'vx_usize_cmp(vx_len(a), vx_len(b))', 'Ord for usize (exact), String::len (uninterpreted)'),
                               ('R11', r'\ba\.cmp\(b\)', 'vx_str_cmp(a, b)', 'Ord for String (uninterpreted total order)')],
                  clauses=[Clause('order.sort_yields_the_canonical_arrangement', 'strictly_sorted(texts(final(test_cases)@)) && texts(final(test_cases)@).to_set() == texts(old(test_cases)@).to_set()', ['C10'])],
                  loops={99: [('order.comparator_is_len_lex_in_place', ['C10'], 'true')]},
                  blocks=[('vx_dedup(test_cases);', 'before', '        let ghost t0 = texts(old(test_cases)@); let ghost t1 = texts(test_cases@);'),
                          ('vx_sort_by(test_cases', 'before', '        let ghost t2 = texts(test_cases@); proof { lemma_perm_same_set(t1, t0); lemma_dedup_of_sorted(t2, t1); }', ('order.sort_yields_the_canonical_arrangement', ['C10'])),
                          (None, 'fn_end', '''        proof {
            let t3 = texts(test_cases@);
            lemma_perm_same_set(t3, t2); lemma_perm_keeps_no_dups(t3, t2);
            assert(sorted_by_len_lex(t3)) by {
                assert forall|i: int, j: int| 0 <= i < j < t3.len() implies len_lex(#[trigger] t3[i], #[trigger] t3[j]) != Ordering::Greater by { assert(in_order(vx_f, test_cases@[i], test_cases@[j])); let o = choose|o: Ordering| #[trigger] vx_f.ensures((&test_cases@[i], &test_cases@[j]), o) && o != Ordering::Greater; }
            }
            lemma_sorted_no_dups_is_strict(t3);
        }''', ('order.sort_yields_the_canonical_arrangement', ['C10']))])
    b.emit('}')
    b.emit('} // verus!\nfn main() {}')
    b.trusted += ['String: Ord is a total order, Equal only on identical strings (axioms axiom_str_cmp_total / axiom_str_cmp_trans); std sort / dedup / sort_by do what their documentation says (sort_by with a strict total order yields the unique sorted arrangement)',
                  'std through three stand-ins (R19, R35): `sort()` returns a permutation that is non-decreasing in String\'s order, `dedup()` a subsequence with the same set of elements and no two adjacent elements equal, `sort_by(f)` a permutation that is non-decreasing with respect to f (the closure keeps its text and is checked against len_lex in place)']
    return b

def build_splice(repo, spec_dir, canary=False):
    """C13: replace_graphemes_with_repetitions -- every quantified unit that is spliced in spans at least minimum_substring_length graphemes and has an exact count"""
    b = _start('splice', repo, canary)
    b.emit('use std::ops::Range;')
    b.type_item('config.rs', r'^pub struct RegExpConfig \{')
    b.type_item('grapheme.rs', r'^pub struct Grapheme \{')
    b.emit(r"""
pub assume_specification [<Grapheme as Clone>::clone] (e: &Grapheme) -> (r: Grapheme) ensures r == *e;
// Vec::splice(range, one element) dropped at once: the range is replaced by that element (std); specified exactly
#[verifier::external_body] pub fn vx_splice_one(v: &mut Vec<Grapheme>, range: core::ops::Range<usize>, g: Grapheme)
    requires range.start <= range.end <= old(v)@.len()
    ensures final(v)@ == old(v)@.subrange(0, range.start as int).push(g) + old(v)@.subrange(range.end as int, old(v)@.len() as int) { unimplemented!() }
pub assume_specification<Idx: Clone> [<core::ops::Range<Idx> as Clone>::clone] (e: &core::ops::Range<Idx>) -> (r: core::ops::Range<Idx>) ensures r == *e;
pub open spec fn from_input(g: Grapheme, input: Seq<Grapheme>) -> bool { exists|i: int| 0 <= i < input.len() && #[trigger] input[i] == g }
// a quantified unit as the property wants it: it spans at least the configured number of graphemes and its count is exact
pub open spec fn unit_ok(g: Grapheme, c: RegExpConfig) -> bool { g.chars@.len() >= c.minimum_substring_length && g.min == g.max }
pub open spec fn all_ok(v: Seq<Grapheme>, input: Seq<Grapheme>, c: RegExpConfig) -> bool { forall|k: int| 0 <= k < v.len() ==> from_input(#[trigger] v[k], input) || unit_ok(v[k], c) }
impl Grapheme {""")
    b.verified_fn('grapheme.rs', 'new', within=r'^impl Grapheme \{', props=['C07'], fname='Grapheme::new',
                  clauses=[Clause('grapheme.new', 'r.chars == chars && r.min == min && r.max == max && r.repetitions@.len() == 0', ['C13'])])
    b.emit('}')
    cl = b.src('cluster.rs')
    f, _, _ = X.fn(cl, 'replace_graphemes_with_repetitions')
    from vx import rustlex as L, dialect as D
    bo = L.body_open(f, 0)
    stop = f.find('for new_grapheme in repetitions.iter_mut()')
    if stop < 0: raise X.LostAnchor('cluster.rs::replace_graphemes_with_repetitions third loop')
    body = f[bo + 1:stop].rstrip()
    sig = f[:bo].rstrip()
    sig = re.sub(r'^\s*fn replace_graphemes_with_repetitions', 'pub fn splice_units', sig.strip())
    def pre(text, log, where):
        return D.desugar_continue(text, log, where)
    b.slice_fn('splice_units', sig, body, 'cluster.rs::replace_graphemes_with_repetitions up to (not including) the loop that recurses into nested units', props=['C07'], pre=pre,
               requires=['old(repetitions)@.len() == 0',
                         'forall|k: int| 0 <= k < coalesced_repetitions@.len() ==> (#[trigger] coalesced_repetitions@[k]).0.start <= coalesced_repetitions@[k].0.end && coalesced_repetitions@[k].1@.len() > 0'],
               clauses=[Clause('splice.units_respect_minimum_length', 'all_ok(final(repetitions)@, graphemes@, *config)', ['C13', 'C05'])],
               extra_rules=[('R19', r'repetitions\.splice\(\s*range\.clone\(\),\s*\[(Grapheme::new\((?:[^()]|\([^()]*\))*\))\]\s*\.iter\(\)\s*\.cloned\(\),\s*\);', r'vx_splice_one(repetitions, range.clone(), \1);', 'Vec::splice(range, [g].iter().cloned()) dropped at once')],
               loops={1: ['it1.seq().len() == graphemes@.len()', 'forall|k: int| 0 <= k < it1.seq().len() ==> *#[trigger] it1.seq()[k] == graphemes@[k]',
                          ('splice.copies_input@loop1', ['C13'], 'repetitions@.len() == it1.index@ && forall|k: int| 0 <= k < repetitions@.len() ==> #[trigger] repetitions@[k] == graphemes@[k]')],
                      2: ['forall|k: int| 0 <= k < coalesced_repetitions@.len() ==> (#[trigger] coalesced_repetitions@[k]).0.start <= coalesced_repetitions@[k].0.end && coalesced_repetitions@[k].1@.len() > 0',
                          'it2.seq().len() == coalesced_repetitions@.len()', 'forall|k: int| 0 <= k < it2.seq().len() ==> *#[trigger] it2.seq()[k] == coalesced_repetitions@[k]',
                          ('splice.units_respect_minimum_length@loop2', ['C13', 'C05'], 'all_ok(repetitions@, graphemes@, *config)')]},
               blocks=[(2, 'loop_start', '        let ghost r0 = repetitions@; proof { assert(*it2.seq()[it2.index@] == coalesced_repetitions@[it2.index@]); }'),
                       (2, 'loop_end', '''        proof {
            assert forall|k: int| 0 <= k < repetitions@.len() implies from_input(#[trigger] repetitions@[k], graphemes@) || unit_ok(repetitions@[k], *config) by {
                if repetitions@ != r0 {
                    let s = range.start as int; let e = range.end as int;
                    if k < s { assert(repetitions@[k] == r0[k]); } else if k == s { } else { assert(repetitions@[k] == r0[k - s - 1 + e]); }
                }
            }
        }''', ('splice.units_respect_minimum_length@loop2', ['C13', 'C05']))])
    b.emit('} // verus!\nimpl Clone for Grapheme { fn clone(&self) -> Self { unimplemented!() } }\nfn main() {}')
    b.trusted += ['Vec::splice with a one-element iterator replaces the range by that element; the ranges of the unverified detection stage have start <= end and a non-empty unit (preconditions)',
                  'the recursion into nested units (third loop: iter_mut + closure) is outside the slice and NOT decided']
    return b

def build_escaper(repo, spec_dir, canary=False):
    """C01/C07: Grapheme::escape_regexp_symbols -- the list of escaped metacharacters, one escaping round, the control-character chain, the lone backslash"""
    b = _start('escaper', repo, canary)
    b.emit('pub mod rm {\nuse super::*;'); b.emit(open(spec_dir + '/replace_model.rs').read()); b.emit('}\nuse rm::*;')
    gr = b.src('grapheme.rs')
    m = re.search(r'const CHARS_TO_ESCAPE: \[&str; (\d+)\] = \[(.*?)\];', gr, re.S)
    if not m: raise X.LostAnchor('grapheme.rs::CHARS_TO_ESCAPE')
    items = re.findall(r'"((?:[^"\\]|\\.)*)"', m.group(2))
    b.log.add('R7', 'grapheme.rs::CHARS_TO_ESCAPE', 'const array of %d string literals' % len(items), 'spec sequence of the same literals')
    b.emit('pub open spec fn chars_to_escape() -> Seq<Seq<char>> { seq![%s] }' % ', '.join('"%s"@' % x for x in items))
    # metacharacters of the regex crate outside classes that are not handled elsewhere (# and whitespace: verbose rewriting; & and ~: only inside classes)
    core = ['(', ')', '[', ']', '{', '}', '+', '*', '.', '?', '|', '^', '$']
    reveals = ' '.join('reveal_strlit("%s");' % x for x in items)
    idx = {x: i for i, x in enumerate(items)}
    def lit(c): return "'\\\\'" if c == '\\' else "'%s'" % c
    cases = ' '.join('if c == %s { %s }' % (lit(c), ('assert(chars_to_escape()[%d] =~= seq![c]);' % idx[c]) if c in idx else 'assert(false);') for c in core)
    b.emit("pub open spec fn core_meta(c: char) -> bool { %s }" % ' || '.join('c == %s' % lit(c) for c in core))
    b.lemma('escaper.every_metacharacter_is_listed', ['C01', 'C07'], '''pub proof fn lemma_meta_listed()
    ensures forall|c: char| core_meta(c) ==> chars_to_escape().contains(seq![c]),
            forall|i: int| 0 <= i < chars_to_escape().len() ==> (#[trigger] chars_to_escape()[i]).len() == 1 && chars_to_escape()[i][0] != '\\\\'
{
    %s
    assert forall|c: char| core_meta(c) implies chars_to_escape().contains(seq![c]) by { %s }
}''' % (reveals, cases))
    b.emit("pub open spec fn round_map(p: char) -> spec_fn(char) -> Seq<char> { |c: char| if c == p { seq!['\\\\', c] } else { seq![c] } }")
    b.emit('''impl<'x, 'y> VxPattern for &'x &'y str { open spec fn matches(&self, c: char) -> bool { self@ == seq![c] } }
// a &str is shown as its text (format! hole)
pub trait VxShow { spec fn shown(&self) -> Seq<char>; fn vx_show(&self) -> (r: String) ensures r@ == self.shown(); }
impl<'x> VxShow for &'x str { open spec fn shown(&self) -> Seq<char> { self@ } #[verifier::external_body] fn vx_show(&self) -> (r: String) { unimplemented!() } }
impl<'x, T: VxShow> VxShow for &'x T { open spec fn shown(&self) -> Seq<char> { (**self).shown() } #[verifier::external_body] fn vx_show(&self) -> (r: String) { unimplemented!() } }
#[verifier::external_body] pub fn vx_concat2(a: String, b: String) -> (r: String) ensures r@ == a@ + b@ { unimplemented!() }
#[verifier::external_body] pub fn vx_lit(s: &str) -> (r: String) ensures r@ == s@ { unimplemented!() }''')
    ef, _, _ = X.fn(gr, 'escape_regexp_symbols')
    from vx import dialect as D
    # one escaping round: the assignment inside `for char_to_escape in CHARS_TO_ESCAPE.iter()`
    k = ef.find('for char_to_escape in CHARS_TO_ESCAPE.iter()')
    from vx import rustlex as L
    if k >= 0:
        bo = L.body_open(ef, k); inner = ef[bo + 1:L.match_close(ef, bo)].strip()
    else:
        inner = None          # no such loop any more: the single-round slice is skipped (its labels go missing from the registry); slice escape_text decides
        b.log.add('R7', 'grapheme.rs::escape_regexp_symbols', 'loop over CHARS_TO_ESCAPE not found', 'slice escape_round skipped')
    def pre(t, log, w):
        t = D.expand_format_macros(t, log, w)
        return re.sub(r'\.replace\(', '.vx_replace(', t)
    if inner is not None: b.slice_fn('escape_round', 'pub fn escape_round(character0: String, char_to_escape: &&str) -> (character: String)', '    let mut character = character0;\n    ' + inner + '\n    character',
               'grapheme.rs::escape_regexp_symbols body of `for char_to_escape in CHARS_TO_ESCAPE.iter()`', props=['C07'], pre=pre,
               requires=['char_to_escape@.len() == 1'],
               clauses=[Clause('escaper.round_prefixes_backslash', "character@ == fm(character0@, round_map(char_to_escape@[0]))", ['C01', 'C07'])],
               epilogue_before_tail='''    proof { reveal_strlit("\\\\"); let p = char_to_escape@[0]; assert(char_to_escape@ =~= seq![p]);
        let f = subst_fn(char_to_escape, "\\\\"@ + char_to_escape@);
        assert forall|c: char| #[trigger] f(c) == round_map(p)(c) by { if c == p { assert("\\\\"@ + char_to_escape@ =~= seq!['\\\\', c]); } }
        lemma_fm_ext(character0@, f, round_map(p)); }''')
    # the control-character chain
    cm = re.search(r'character = character\s*\.replace\(\'.*?;', ef, re.S)
    if not cm: raise X.LostAnchor('grapheme.rs::escape_regexp_symbols control-character chain')
    b.slice_fn('escape_controls', 'pub fn escape_controls(character0: String) -> (character: String)', '    let mut character = character0;\n    ' + cm.group(0) + '\n    character',
               'grapheme.rs::escape_regexp_symbols statement `character = character.replace(\'\\n\', ..)...`', props=['C07'], pre=pre,
               clauses=[Clause('escaper.controls_single', "character0@.len() == 1 ==> character@ == (if character0@[0] == '\\n' { \"\\\\n\"@ } else if character0@[0] == '\\r' { \"\\\\r\"@ } else if character0@[0] == '\\t' { \"\\\\t\"@ } else { character0@ })", ['C01', 'C07'])],
               epilogue_before_tail='    proof { reveal_with_fuel(fm, 6); reveal_strlit("\\\\n"); reveal_strlit("\\\\r"); reveal_strlit("\\\\t"); if character0@.len() == 1 { assert(character0@ =~= seq![character0@[0]]); } }')
    from units import escapertext
    escapertext.emit(b, spec_dir, ef, m, items, pre)
    b.emit('} // verus!\nfn main() {}')
    b.trusted += ['replace model (String::replace with a one-character &str / char pattern replaces every occurrence, left to right)',
                  'format!("{}{}", "\\\\", x) concatenates (formatting model)',
                  'slice escape_text: the first and the last statement of the loop body (`let mut character = characters[i].clone();`, `characters[i] = character;`) become the parameter and the result of the slice; that the outer loop visits every element of `chars` is not decided']
    return b
