"""unit `charcount`: Grapheme::char_count, plain branch -- the number of CODE POINTS of the grapheme's text.  Display for Grapheme (group or no group in front of a
quantifier) and Expression::is_single_codepoint (merge into a character class) rely on exactly that meaning; other units assume it."""
import re
from vx.assemble import Builder, Clause
from vx import extract as X, rustlex as L
from units import smallslices as S

P = ['C01', 'C02', 'C05', 'C16']

def build(repo, spec_dir, canary=False):
    b = Builder('charcount', repo, canary)
    b.emit('use vstd::prelude::*;\nverus! {')
    b.emit(S.HELPERS)
    b.emit('''// unicode-segmentation: the number of extended grapheme clusters of a string -- NOT the number of code points
pub uninterp spec fn cluster_count(s: Seq<char>) -> nat;
#[verifier::external_body] pub fn vx_grapheme_cluster_count(s: &str) -> (r: usize) ensures r == cluster_count(s@) { unimplemented!() }''')
    gr = b.src('grapheme.rs')
    f, _, _ = X.fn(gr, 'char_count', within=r'^impl Grapheme \{')
    # the closure of the plain (else) branch: `.map(|it| <code points of it>)`
    k = f.rfind('} else {')
    if k < 0: raise X.LostAnchor('grapheme.rs::Grapheme::char_count else branch')
    ce, _, _ = X.closure_expr(f[k:], '.map(|it| ')
    b.slice_fn('char_count_of_one_string', 'pub fn char_count_of_one_string(it: &String) -> (r: usize)', '    ' + ce, 'grapheme.rs::Grapheme::char_count closure |it| of the plain branch', props=['C07'],
               extra_rules=[('R5', r'\bit\.graphemes\(true\)\.count\(\)', 'vx_grapheme_cluster_count(it)', 'UnicodeSegmentation::graphemes(true).count(): number of extended grapheme clusters (uninterpreted)')],
               clauses=[Clause('char_count.counts_code_points', 'r == it@.len()', P)])
    b.emit('} // verus!\nfn main() {}')
    b.trusted += ['closure plumbing dropped: iter().map(closure).sum() adds the closure results; the escaped branch of char_count (escape + join + count) is not decided']
    return b
