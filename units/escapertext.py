"""Slice `escape_text` of unit `escaper`: the whole per-string statement range of Grapheme::escape_regexp_symbols -- all rounds over
CHARS_TO_ESCAPE, the control-character chain and the lone backslash -- equals ONE per-character map (`esc_map`, the specification).

The interference proof is GENERATED from the list and the chain found in the source (patterns, texts, order): each character class is
simulated through the calls in Python and the resulting intermediate texts are handed to Verus as assertions, which Verus checks.  A harmless
reordering of the chain therefore still verifies; a call that touches a listed character, a wrong replacement text, a duplicate or a
non-punctuation entry in the list, or a missing round fails a labelled obligation."""
import os, re
from vx.assemble import Clause
from vx import extract as X, rustlex as L
from units.verbose import CH, char_cp, cp_lit, str_cps

P = ['C01', 'C07']
SPEC = r"""// the listed characters as a sequence of chars
pub open spec fn listed() -> Seq<char> { Seq::new(chars_to_escape().len(), |i: int| chars_to_escape()[i][0]) }
pub open spec fn bs_text() -> spec_fn(char) -> Seq<char> { |c: char| seq!['\\', c] }
// SPECIFICATION of the statement range, per character of the text: a listed metacharacter gets a backslash, newline / carriage return / tab
// become their two-character escapes, everything else is kept
pub open spec fn esc_map() -> spec_fn(char) -> Seq<char> {
    |c: char| if listed().contains(c) { seq!['\\', c] } else if c == '\n' { seq!['\\', 'n'] } else if c == '\r' { seq!['\\', 'r'] } else if c == '\t' { seq!['\\', 't'] } else { seq![c] }
}"""

LIST_FACTS = """pub proof fn lemma_list_facts()
    ensures listed().len() == %(n)d, listed().no_duplicates(),
        forall|i: int| 0 <= i < %(n)d ==> CHARS_TO_ESCAPE@[i]@ == chars_to_escape()[i] && (#[trigger] chars_to_escape()[i]).len() == 1,
        forall|i: int| 0 <= i < %(n)d ==> { let c = #[trigger] listed()[i]; %(avoid)s },
        // `\\x` must be an escape of x itself in the regex syntax: only ASCII punctuation qualifies (a letter or digit after a backslash is a class or an error)
        forall|i: int| 0 <= i < %(n)d ==> { let c = #[trigger] listed()[i]; ('!' <= c && c <= '/') || (':' <= c && c <= '@') || ('[' <= c && c <= '`') || ('{' <= c && c <= '~') },
{
    %(reveals)s
    assert(listed() =~= %(seq)s);
}"""

CHAIN = """pub proof fn lemma_control_chain(c0: Seq<char>, mid: Seq<char>, out: Seq<char>)
    requires mid == fm(c0, set_map(listed(), %(n)d, bs_text())), out == %(nest)s,
    ensures out == fm(c0, esc_map())
{
    lemma_list_facts();
    %(reveals)s
    let h0 = set_map(listed(), %(n)d, bs_text());
    %(steps)s
    assert(listed().take(%(n)d) =~= listed());
    assert forall|c: char| #[trigger] %(hn)s(c) == esc_map()(c) by {
        reveal_with_fuel(fm, %(fuel)d);
        if listed().contains(c) {
            let i = choose|i: int| 0 <= i < listed().len() && listed()[i] == c;
            assert(h0(c) =~= seq!['\\\\', c]);
            %(listed_case)s
        } else {
            assert(h0(c) =~= seq![c]);
            %(other_cases)s
        }
    }
    lemma_fm_ext(c0, %(hn)s, esc_map());
}"""

def emit(b, spec_dir, ef, m, items, pre):
    n = len(items)
    if any(len(str_cps('"%s"' % x)) != 1 for x in items): raise X.LostAnchor('grapheme.rs::CHARS_TO_ESCAPE: an entry is not one character long')
    cps = [str_cps('"%s"' % x)[0] for x in items]
    # the const item itself, as it is, with the elided lifetime written out (R25)
    b.log.add('R25', 'grapheme.rs::CHARS_TO_ESCAPE', '[&str; N] in a const item', "[&'static str; N] (the lifetime rustc elides in consts)")
    b.emit("pub const CHARS_TO_ESCAPE: [&'static str; %s] = [%s];" % (m.group(1), m.group(2)))
    # the statements of the outer loop body
    k = ef.find('for i in 0..characters.len()')
    if k < 0: raise X.LostAnchor('grapheme.rs::escape_regexp_symbols outer loop')
    bo = L.body_open(ef, k); inner = ef[bo + 1:L.match_close(ef, bo)]
    st = [inner[a:e] for a, e in L.split_stmts(inner)]
    if len(st) < 3 or not re.fullmatch(r'let mut character = characters\[i\]\.clone\(\);', st[0].strip()) or not re.fullmatch(r'characters\[i\] = character;', st[-1].strip()):
        raise X.LostAnchor('grapheme.rs::escape_regexp_symbols: loop body no longer starts with `let mut character = characters[i].clone();` and ends with `characters[i] = character;`')
    st = st[1:-1]
    ci = [i for i, x in enumerate(st) if re.match(r'character = character\s*\.replace\(', x.strip())]
    if len(ci) != 1: raise X.LostAnchor('grapheme.rs::escape_regexp_symbols control-character chain')
    chain = re.findall(r'\.replace\(\s*(%s)\s*,\s*("(?:[^"\\]|\\.)*")\s*\)' % CH, st[ci[0]])
    if len(chain) != st[ci[0]].count('.replace(') or not chain: raise X.LostAnchor('grapheme.rs::escape_regexp_symbols control-character chain: a call is not `.replace(char, "text")`')
    pats = [char_cp(pc) for pc, _ in chain]; texts = [str_cps(t) for _, t in chain]
    avoid = sorted(set([92, 9, 10, 13] + pats))       # backslash, the three characters the specification treats specially, every pattern of the chain
    seqlit = lambda toks: 'seq![%s]' % ', '.join(t if isinstance(t, str) else cp_lit(t) for t in toks)
    b.emit(SPEC)
    b.emit('''// [&str; N]::contains(&s.as_str()) (R19) and a String in a format! hole
#[verifier::external_body] pub fn vx_arr_contains_str<const N: usize>(a: &[&'static str; N], s: &String) -> (r: bool) ensures r == exists|i: int| 0 <= i < N && (#[trigger] a@[i])@ == s@ { unimplemented!() }
impl VxShow for String { open spec fn shown(&self) -> Seq<char> { self@ } #[verifier::external_body] fn vx_show(&self) -> (r: String) { unimplemented!() } }''')
    b.lemma('escaper.list_facts', P, LIST_FACTS % dict(n=n, avoid=' && '.join('c != %s' % cp_lit(a) for a in avoid),
                                                       reveals=' '.join('reveal_strlit("%s");' % x for x in items), seq=seqlit(cps)))
    b.emit(open(os.path.join(spec_dir, 'escaper_lemmas.rs')).read())
    # generated interference proof of the chain: simulate each character class through the calls
    def sim(toks):
        out = [list(toks)]
        for p_, t_ in zip(pats, texts):
            cur = []
            for tok in out[-1]: cur += (t_ if tok == p_ else [tok])
            out.append(cur)
        return out
    upats = list(dict.fromkeys(pats))
    maxlen = max(len(x) for start in [[92, 'c'], ['c']] + [[p_] for p_ in upats] for x in sim(start))
    asserts = lambda start: ' '.join('assert(h%d(c) =~= %s);' % (i, seqlit(x)) for i, x in enumerate(sim(start)) if i > 0)
    nest = 'mid'
    for pc, t in chain: nest = 'fm(%s, subst_fn(%s, %s@))' % (nest, pc, t)
    b.lemma('escaper.control_chain_is_pointwise', P, CHAIN % dict(
        n=n, nest=nest, hn='h%d' % len(chain), fuel=maxlen + 2,
        reveals=' '.join('reveal_strlit(%s); assert(%s@ =~= %s);' % (t, t, seqlit(str_cps(t))) for t in dict.fromkeys(t for _, t in chain)),
        steps='\n    '.join('let g%d = subst_fn(%s, %s@); let h%d = |c: char| fm(h%d(c), g%d); lemma_fm_compose(c0, h%d, g%d, h%d);' % (i + 1, pc, t, i + 1, i, i + 1, i, i + 1, i + 1) for i, (pc, t) in enumerate(chain)),
        listed_case=asserts([92, 'c']),
        other_cases=' else '.join(['if c == %s { %s }' % (cp_lit(p_), asserts([p_])) for p_ in upats] + ['{ %s }' % asserts(['c'])])))
    if not hasattr(b, '_block_labels'): b._block_labels = {}
    def lab(text, l):
        b._block_labels[l] = P
        return '\n'.join(ln + ' /*@%s@*/' % l for ln in text.split('\n'))
    body = []
    for i, x in enumerate(st):
        if i == ci[0]: body.append('    let ghost vx_mid = character@;')
        body.append('    ' + x.strip('\n').lstrip())
        if i == ci[0]: body.append(lab('    proof { lemma_control_chain(character0@, vx_mid, character@); lemma_fm_only_backslash(character0@); }', 'escaper.control_chain_applies'))
    text = '\n'.join(body)
    LOOP = 'for char_to_escape in CHARS_TO_ESCAPE.iter() {'
    has_loop = LOOP in text
    if not has_loop and re.search(r'\b(for|while|loop)\b', L.strip_comments(text) if hasattr(L, 'strip_comments') else text):
        raise X.LostAnchor('grapheme.rs::escape_regexp_symbols: the rounds are no longer `%s`' % LOOP)
    def pre2(t, log, w):
        t = pre(t, log, w)
        t2 = t.replace(LOOP, 'for vx_k1 in 0..CHARS_TO_ESCAPE.len() {\n        let char_to_escape = &CHARS_TO_ESCAPE[vx_k1];')
        if t2 != t: log.add('R22', w, '`for x in CONST.iter() {`', 'for k in 0..CONST.len() { let x = &CONST[k]; .. }')
        return t2
    BS1, BS2 = '"\\\\"', '"\\\\\\\\"'          # the Rust literals "\\" and "\\\\"
    b.slice_fn('escape_text', 'pub fn escape_text(character0: String) -> (character: String)', text,
               'grapheme.rs::escape_regexp_symbols statements between `let mut character = characters[i].clone();` and `characters[i] = character;`', props=['C07'], pre=pre2,
               prologue="    let mut character = character0;\n    proof { lemma_list_facts(); lemma_set_map_zero(character0@, listed(), bs_text()); reveal_strlit(%s); reveal_strlit(%s); assert(%s@ =~= seq!['\\\\']); assert(%s@ =~= seq!['\\\\', '\\\\']); }" % (BS1, BS2, BS1, BS2),
               epilogue='    character',
               clauses=[Clause('escaper.whole_text_escaped', "character@ == (if character0@ =~= seq!['\\\\'] { seq!['\\\\', '\\\\'] } else { fm(character0@, esc_map()) })", P)],
               extra_rules=[('R19', r'\bCHARS_TO_ESCAPE\.contains\(&(\w+)\.as_str\(\)\)', r'vx_arr_contains_str(&CHARS_TO_ESCAPE, &\1)', '[&str; N]::contains(&s.as_str()): some entry equals s'),
                            ('R12', r'\bcharacter == ("(?:[^"\\]|\\.)*")', r'vx_string_eq_lit(&character, \1)', 'PartialEq<str> for String'),
                            ('R4', r'("(?:[^"\\]|\\.)*")\.to_string\(\)', r'vx_str_to_string(\1)', '&str -> String copy')],
               loops={1: ['it1.iter.end == %d' % n, ('escaper.rounds_so_far@loop1', P, 'character@ == fm(character0@, set_map(listed(), vx_k1 as int, bs_text()))')]} if has_loop else None,
               blocks=[(1, 'loop_start', '        let ghost vx_before = character@;'),
                       (1, 'loop_end', '        proof { lemma_list_facts(); lemma_escape_round(character0@, vx_before, character@, vx_k1 as int, char_to_escape); }', ('escaper.round_applies', P))] if has_loop else None)
