//! Replays a concrete input on the real grex library (path dependency on /repo's working tree).
//! usage: vx-replay [--FLAG ...] [--min-rep N] [--min-len N] [--expect-regex R] [--must-match S ...] [--must-not-match S ...] -- TESTCASE...
//! Test cases / strings may use \u{HEX} escapes and \\ for a backslash (decoded here, so that any scalar value can be passed).
//! Prints the generated expression, then one line per check; exit 0 iff every check holds:
//!   * the expression compiles with the regex crate,
//!   * every test case is matched completely (skipped with --no-soundness),
//!   * --must-match / --must-not-match strings behave as stated, --expect-regex equals the output.
use grex::RegExpBuilder;
use regex::Regex;

fn decode(s: &str) -> String {
    let mut out = String::new();
    let cs: Vec<char> = s.chars().collect();
    let mut i = 0;
    while i < cs.len() {
        if cs[i] == '\\' && i + 1 < cs.len() && cs[i + 1] == 'u' && i + 2 < cs.len() && cs[i + 2] == '{' {
            if let Some(end) = cs[i + 3..].iter().position(|c| *c == '}') {
                let hex: String = cs[i + 3..i + 3 + end].iter().collect();
                if let Some(c) = u32::from_str_radix(&hex, 16).ok().and_then(char::from_u32) {
                    out.push(c);
                    i += 3 + end + 1;
                    continue;
                }
            }
        }
        if cs[i] == '\\' && i + 1 < cs.len() && cs[i + 1] == '\\' {
            out.push('\\');
            i += 2;
            continue;
        }
        out.push(cs[i]);
        i += 1;
    }
    out
}

/// Bounded search for a concrete failing input, used only AFTER a language-level proof obligation has failed:
/// all sets of 1..=3 words over {a,b}^<=3 (including the empty word); the expression must compile and its language
/// restricted to {a,b}^<=4 must be exactly the set.  Prints `failing input: -- w1 w2 ..` and exits 1 on the first failure.
fn hunt_lang(ignore_kf1: bool) -> ! {
    let mut words: Vec<String> = vec![String::new()];
    let mut layer = vec![String::new()];
    let mut universe = vec![String::new()];
    for depth in 0..4 {
        let mut next = vec![];
        for w in &layer { for c in ['a', 'b'] { let mut x = w.clone(); x.push(c); next.push(x); } }
        if depth < 3 { words.extend(next.iter().cloned()); }
        universe.extend(next.iter().cloned());
        layer = next;
    }
    let n = words.len();
    let mut tried = 0u64;
    let check = |set: &[&String]| -> bool {
        let cases: Vec<String> = set.iter().map(|s| (*s).clone()).collect();
        let out = RegExpBuilder::from(&cases).build();
        let re = match Regex::new(&out) { Ok(r) => r, Err(_) => return false };
        // --ignore-kf1: the recorded known finding (the empty word among several test cases is not matched) is not reported again
        universe.iter().all(|u| (ignore_kf1 && u.is_empty() && cases.len() > 1) || re.is_match(u) == cases.contains(u))
    };
    let fail = |set: &[&String]| -> ! {
        let args: Vec<String> = set.iter().map(|s| if s.is_empty() { "''".to_string() } else { (*s).clone() }).collect();
        println!("failing input: -- {}", args.join(" "));
        let cases: Vec<String> = set.iter().map(|s| (*s).clone()).collect();
        println!("regex: {}", RegExpBuilder::from(&cases).build());
        std::process::exit(1)
    };
    for i in 0..n { tried += 1; if !check(&[&words[i]]) { fail(&[&words[i]]) } }
    for i in 0..n { for j in i + 1..n { tried += 1; if !check(&[&words[i], &words[j]]) { fail(&[&words[i], &words[j]]) } } }
    for i in 0..n { for j in i + 1..n { for k in j + 1..n { tried += 1; if !check(&[&words[i], &words[j], &words[k]]) { fail(&[&words[i], &words[j], &words[k]]) } } } }
    println!("hunt-lang: {tried} sets tried, none fails");
    std::process::exit(0)
}

/// Bounded search for a soundness failure (C01/C03/C04/C07), used only AFTER a proof obligation has failed: all sets of 1..=2 words of
/// length <= 2 over {a, B, 1, ' '} x all 2^8 subsets of {digits, non-digits, words, non-words, spaces, non-spaces, ignore-case,
/// repetitions}; the expression must compile and match every test case in full.  Prints `failing input: FLAGS -- words` and exits 1.
fn hunt_sound() -> ! {
    let alphabet = ['a', 'B', '1', ' '];
    let mut words: Vec<String> = vec![];
    for a in alphabet { words.push(a.to_string()); }
    for a in alphabet { for b in alphabet { words.push(format!("{a}{b}")); } }
    let flags = ["--digits", "--non-digits", "--words", "--non-words", "--spaces", "--non-spaces", "--ignore-case", "--repetitions"];
    let mut sets: Vec<Vec<String>> = vec![];
    for i in 0..words.len() { sets.push(vec![words[i].clone()]); for j in i + 1..words.len() { sets.push(vec![words[i].clone(), words[j].clone()]); } }
    let mut tried = 0u64;
    for mask in 0u32..256 {
        for set in &sets {
            tried += 1;
            let mut b = RegExpBuilder::from(set);
            if mask & 1 != 0 { b.with_conversion_of_digits(); }
            if mask & 2 != 0 { b.with_conversion_of_non_digits(); }
            if mask & 4 != 0 { b.with_conversion_of_words(); }
            if mask & 8 != 0 { b.with_conversion_of_non_words(); }
            if mask & 16 != 0 { b.with_conversion_of_whitespace(); }
            if mask & 32 != 0 { b.with_conversion_of_non_whitespace(); }
            if mask & 64 != 0 { b.with_case_insensitive_matching(); }
            if mask & 128 != 0 { b.with_conversion_of_repetitions(); }
            let out = b.build();
            let ok = match Regex::new(&out) {
                Ok(re) => set.iter().all(|c| re.find(c).map_or(false, |m| m.start() == 0 && m.end() == c.len())),
                Err(_) => false,
            };
            if !ok {
                let fl: Vec<&str> = (0..8).filter(|k| mask & (1 << k) != 0).map(|k| flags[k]).collect();
                let ws: Vec<String> = set.iter().map(|w| format!("'{w}'")).collect();
                println!("failing input: {} -- {}", fl.join(" "), ws.join(" "));
                println!("regex: {out}");
                std::process::exit(1)
            }
        }
    }
    println!("hunt-sound: {tried} builds tried, none fails");
    std::process::exit(0)
}


/// Property-level bounded searches on the real library, used only AFTER a proof obligation tagged with that property has failed.
/// Each prints `failing input: FLAGS -- words` and exits 1 on the first input on which the property visibly fails, else exits 0.
fn hunt_prop(prop: &str) -> ! {
    fn words(alphabet: &[char], max_len: usize) -> Vec<String> {
        let mut out = vec![]; let mut layer = vec![String::new()];
        for _ in 0..max_len { let mut next = vec![]; for w in &layer { for c in alphabet { let mut x = w.clone(); x.push(*c); next.push(x); } } out.extend(next.iter().cloned()); layer = next; }
        out
    }
    fn sets(ws: &[String], max: usize) -> Vec<Vec<String>> {
        let mut out = vec![];
        for i in 0..ws.len() { out.push(vec![ws[i].clone()]); if max >= 2 { for j in i + 1..ws.len() { out.push(vec![ws[i].clone(), ws[j].clone()]);
            if max >= 3 { for k in j + 1..ws.len() { out.push(vec![ws[i].clone(), ws[j].clone(), ws[k].clone()]); } } } } }
        out
    }
    fn apply(b: &mut RegExpBuilder, flags: &[&str]) {
        for f in flags { match *f {
            "--repetitions" => { b.with_conversion_of_repetitions(); } "--verbose" => { b.with_verbose_mode(); } "--capture-groups" => { b.with_capturing_groups(); }
            "--escape" => { b.with_escaping_of_non_ascii_chars(false); } "--ignore-case" => { b.with_case_insensitive_matching(); }
            "--no-start-anchor" => { b.without_start_anchor(); } "--no-end-anchor" => { b.without_end_anchor(); } "--no-anchors" => { b.without_anchors(); }
            "--min-rep-2" => { b.with_minimum_repetitions(2); } "--min-len-2" => { b.with_minimum_substring_length(2); }
            "--digits" => { b.with_conversion_of_digits(); } "--words" => { b.with_conversion_of_words(); } "--spaces" => { b.with_conversion_of_whitespace(); }
            _ => {} } }
    }
    fn fail(flags: &[&str], set: &[String], why: &str, out: &str) -> ! {
        let fl: Vec<String> = flags.iter().map(|f| match *f { "--min-rep-2" => "--min-rep 2".to_string(), "--min-len-2" => "--min-len 2".to_string(), x => x.to_string() }).collect();
        let ws: Vec<String> = set.iter().map(|w| format!("'{}'", w.chars().map(|c| if c.is_ascii() && c != '\'' && c != '\\' { c.to_string() } else { format!("\\u{{{:x}}}", c as u32) }).collect::<String>())).collect();
        println!("failing input: {} -- {}", fl.join(" "), ws.join(" "));
        println!("regex: {out}\nwhy: {why}");
        std::process::exit(1)
    }
    let full = |re: &Regex, s: &str| re.find(s).map_or(false, |m| m.start() == 0 && m.end() == s.len());
    let mut tried = 0u64;
    match prop {
        // presentation options and repetition conversion must not change the language
        // (C05 has no search of its own: the recorded known finding KF2 already fails on most small inputs with repeated letters)
        "C06" => {
            let (alphabet, probes, variants): (Vec<char>, Vec<char>, Vec<Vec<&str>>) = if prop == "C05" {
                (vec!['a', 'b'], vec!['a', 'b'], vec![vec!["--repetitions"], vec!["--repetitions", "--min-rep-2"], vec!["--repetitions", "--min-len-2"]])
            } else {
                (vec!['a', ' ', '#', '\u{2003}', '\u{e9}', '$', '(', '|'], vec!['a', ' ', '#', '\u{2003}', '\u{2004}', '\t', '\u{e9}', 'b', '$', '(', '|'], vec![vec!["--verbose"], vec!["--capture-groups"], vec!["--escape"], vec!["--verbose", "--capture-groups", "--escape"]])
            };
            let ws = words(&alphabet, if prop == "C05" { 5 } else { 2 });
            let universe = { let mut u = words(&probes, if prop == "C05" { 6 } else { 3 }); u.push(String::new()); u };
            for set in sets(&ws, 2) {
                let plain = RegExpBuilder::from(&set).build();
                let Ok(re0) = Regex::new(&plain) else { continue };
                for v in &variants {
                    tried += 1;
                    let mut b = RegExpBuilder::from(&set); apply(&mut b, v);
                    let out = b.build();
                    let Ok(re) = Regex::new(&out) else { fail(v, &set, "the pattern does not compile", &out) };
                    for u in &universe { if full(&re0, u) != full(&re, u) { fail(v, &set, &format!("accepts {:?}: {} with the option, {} without", u, full(&re, u), full(&re0, u)), &out) } }
                    if prop == "C06" && v.contains(&"--capture-groups") && out.contains("(?:") { fail(v, &set, "a non-capturing group in a capturing build", &out) }
                    if prop == "C06" && !v.contains(&"--capture-groups") && Regex::new(&out).unwrap().captures_len() > 1 { fail(v, &set, "a capturing group without the option", &out) }
                }
            }
        }
        // with an anchor disabled, searching a test case returns the whole test case
        "C08" => {
            let ws = { let mut w = words(&['a', 'b'], 3); w.push(String::new()); w };
            for set in sets(&ws, 2) { for v in [vec!["--no-start-anchor"], vec!["--no-end-anchor"], vec!["--no-anchors"]] {
                tried += 1;
                let mut b = RegExpBuilder::from(&set); apply(&mut b, &v);
                let out = b.build();
                let Ok(re) = Regex::new(&out) else { fail(&v, &set, "the pattern does not compile", &out) };
                if (v[0] == "--no-end-anchor") != out.starts_with('^') { fail(&v, &set, "^ present/absent against the options", &out) }
                if (v[0] == "--no-start-anchor") != out.ends_with('$') { fail(&v, &set, "$ present/absent against the options", &out) }
                if set.len() > 1 && set.contains(&String::new()) { continue }      // known finding KF1
                for tc in &set { if re.find(tc).map(|m| m.as_str() == tc) != Some(true) { fail(&v, &set, &format!("find({:?}) does not return the whole test case", tc), &out) } }
            } }
            // overlapping shorthand classes (a digit is a word character): the order of the alternatives decides what a search returns (F11, F12)
            let ws2: Vec<String> = ["a", "aa", "aaa", "aaaa", "1", "11", "111", "1111", "a1", "1a", "a-", "a--"].iter().map(|x| x.to_string()).collect();
            for set in sets(&ws2, 3) { for v in [vec!["--digits", "--words", "--no-start-anchor"], vec!["--digits", "--words", "--no-end-anchor"], vec!["--digits", "--words", "--no-anchors"]] {
                tried += 1;
                let mut b = RegExpBuilder::from(&set); apply(&mut b, &v);
                let out = b.build();
                let Ok(re) = Regex::new(&out) else { fail(&v, &set, "the pattern does not compile", &out) };
                for tc in &set { if re.find(tc).map(|m| m.as_str() == tc) != Some(true) { fail(&v, &set, &format!("find({:?}) does not return the whole test case", tc), &out) } }
            } }
        }
        // braces only on request, counts above the minimum, units of the minimum length
        "C13" => {
            let ws = words(&['a', 'b'], 6);
            let brace = Regex::new(r"\{(\d+)(?:,(\d+))?\}").unwrap();
            for set in sets(&ws, 1) { for v in [vec![], vec!["--repetitions"], vec!["--repetitions", "--min-rep-2"], vec!["--repetitions", "--min-len-2"]] {
                tried += 1;
                let mut b = RegExpBuilder::from(&set); apply(&mut b, &v);
                let out = b.build();
                if v.is_empty() && out.contains('{') { fail(&v, &set, "a quantifier without repetition conversion", &out) }
                let min = if v.contains(&"--min-rep-2") { 2 } else { 1 };
                for c in brace.captures_iter(&out) { let hi: u32 = c.get(2).or(c.get(1)).unwrap().as_str().parse().unwrap(); if hi <= min { fail(&v, &set, &format!("count {hi} is not above the minimum {min}"), &out) } }
                if v.contains(&"--min-len-2") && Regex::new(r"(^|[^)])[ab]\{").unwrap().is_match(&out) { fail(&v, &set, "a one-character unit is quantified although the minimum substring length is 2", &out) }
            } }
        }
        // highlighting only adds colour codes
        "C15" => {
            let sgr = Regex::new("\u{1b}\\[[0-9;]*m").unwrap();
            let mut ws = words(&['a', 'b', '1'], 3);
            ws.extend(words(&['$', ')', '(', '^', 'a'], 2));      // metacharacters: as members of a (coloured) character class they look like anchors / parentheses (F9)
            ws.sort(); ws.dedup();
            for set in sets(&ws, 2) { for v in [vec![], vec!["--verbose"], vec!["--repetitions"], vec!["--digits", "--verbose"], vec!["--no-anchors", "--verbose", "--repetitions"], vec!["--ignore-case", "--verbose"], vec!["--capture-groups"]] {
                tried += 1;
                let mut b = RegExpBuilder::from(&set); apply(&mut b, &v);
                let plain = b.build();
                let mut c = RegExpBuilder::from(&set); apply(&mut c, &v); c.with_syntax_highlighting();
                let colored = c.build();
                if sgr.replace_all(&colored, "") != plain { fail(&v, &set, &format!("with the colour codes removed the highlighted output is {:?}", sgr.replace_all(&colored, "")), &plain) }
            } }
        }
        // case-insensitive matching accepts every test case whatever its casing
        // shorthand-class options generalise exactly as documented (precedence digit, word, space, non-digit, non-word, non-space)
        "C03" => {
            let ws = words(&['a', '1', ' ', '-'], 3);
            let probes = words(&['b', 'a', '2', '1', '\t', ' ', '+', '-', '_'], 2);
            let is_d = |c: char| c.is_ascii_digit(); let is_w = |c: char| c.is_ascii_alphanumeric() || c == '_'; let is_s = |c: char| c == ' ' || c == '\t';
            let opts = ["--digits", "--non-digits", "--spaces", "--non-spaces", "--words", "--non-words"];
            for mask in 0u32..64 {
                let v: Vec<&str> = opts.iter().enumerate().filter(|(i, _)| mask & (1 << i) != 0).map(|(_, o)| *o).collect();
                let (d, nd, sp, nsp, w, nw) = (mask & 1 != 0, mask & 2 != 0, mask & 4 != 0, mask & 8 != 0, mask & 16 != 0, mask & 32 != 0);
                // the documented class of one code point of a test case, as a predicate on a code point of a candidate string
                let same_class = |t: char, c: char| -> bool {
                    if d && is_d(t) { is_d(c) } else if w && is_w(t) { is_w(c) } else if sp && is_s(t) { is_s(c) }
                    else if nd && !is_d(t) { !is_d(c) } else if nw && !is_w(t) { !is_w(c) } else if nsp && !is_s(t) { !is_s(c) } else { t == c }
                };
                for set in sets(&ws, 2) {
                    if set.len() == 2 && (mask % 7 != 0) { continue }          // pairs only for every seventh flag subset: keeps the search under a minute
                    tried += 1;
                    let mut b = RegExpBuilder::from(&set);
                    if d { b.with_conversion_of_digits(); } if nd { b.with_conversion_of_non_digits(); } if sp { b.with_conversion_of_whitespace(); }
                    if nsp { b.with_conversion_of_non_whitespace(); } if w { b.with_conversion_of_words(); } if nw { b.with_conversion_of_non_words(); }
                    let out = b.build();
                    let Ok(re) = Regex::new(&out) else { fail(&v, &set, "the pattern does not compile", &out) };
                    for tc in &set { if !full(&re, tc) { fail(&v, &set, &format!("test case {:?} is not matched", tc), &out) } }
                    for p in probes.iter().chain(ws.iter()) {
                        let pc: Vec<char> = p.chars().collect();
                        let want = set.iter().any(|t| { let tcs: Vec<char> = t.chars().collect(); tcs.len() == pc.len() && tcs.iter().zip(pc.iter()).all(|(a, b)| same_class(*a, *b)) });
                        if full(&re, p) != want { fail(&v, &set, &format!("{:?} is {} but the documented generalisation {} it", p, if want { "rejected" } else { "accepted" }, if want { "contains" } else { "does not contain" }), &out) }
                    }
                }
            }
        }
        "C04" => {
            let ws = words(&['a', 'B', '\u{130}', '\u{3a3}'], 3);
            for set in sets(&ws, 2) { for v in [vec!["--ignore-case"], vec!["--ignore-case", "--verbose"]] {
                tried += 1;
                let mut b = RegExpBuilder::from(&set); apply(&mut b, &v);
                let out = b.build();
                if !out.starts_with("(?i") { fail(&v, &set, "the pattern does not carry the (?i) flag", &out) }
                let Ok(re) = Regex::new(&out) else { fail(&v, &set, "the pattern does not compile", &out) };
                for tc in &set { if !full(&re, tc) { fail(&v, &set, &format!("test case {:?} is not matched", tc), &out) } }
            } }
        }
        // escaped output is pure ASCII
        "C11" => {
            let ws = words(&['a', '\u{e9}', '\u{2665}', '\u{1f4a9}'], 3);
            for set in sets(&ws, 2) { for v in [vec!["--escape"], vec!["--escape", "--repetitions"], vec!["--escape", "--verbose"]] {
                tried += 1;
                let mut b = RegExpBuilder::from(&set); apply(&mut b, &v);
                let out = b.build();
                if !out.is_ascii() { fail(&v, &set, "the escaped pattern is not pure ASCII", &out) }
                let Ok(re) = Regex::new(&out) else { fail(&v, &set, "the pattern does not compile", &out) };
                for tc in &set { if !full(&re, tc) { fail(&v, &set, &format!("test case {:?} is not matched", tc), &out) } }
            } }
        }
        _ => { println!("hunt-prop: no search for {prop}"); std::process::exit(0) }
    }
    println!("hunt-prop {prop}: {tried} builds tried, none fails");
    std::process::exit(0)
}

// src/py_extract.rs is (re)generated by vx/witness.py on every build: the text of python.rs::replace_unicode_escape_sequences, byte for byte
mod py_extract;

/// `py-escapes TEXT`: applies the extracted function to TEXT; fails if a Rust-style \\u{..} escape is left or CPython's re rejects the result
fn py_escapes(text: &str) -> ! {
    let out = py_extract::replace_unicode_escape_sequences(text.to_string());
    println!("python pattern: {out}");
    let mut ok = true;
    if out.contains("\\u{") { println!("FAIL: a \\u{{..}} escape is left in the pattern"); ok = false; }
    match std::process::Command::new("python3").args(["-c", "import re,sys; re.compile(sys.argv[1])", &out]).output() {
        Ok(o) if !o.status.success() => { println!("FAIL: CPython re.compile rejects the pattern: {}", String::from_utf8_lossy(&o.stderr).lines().last().unwrap_or("")); ok = false; }
        Ok(_) => println!("ok: CPython re.compile accepts the pattern"),
        Err(e) => println!("(python3 not run: {e})"),
    }
    std::process::exit(if ok { 0 } else { 1 })
}

fn main() {
    let args: Vec<String> = std::env::args().skip(1).collect();
    if args.first().map(|a| a == "from-file").unwrap_or(false) {
        // `from-file PATH`: RegExpBuilder::from_file(PATH).build() next to RegExpBuilder::from(lines of PATH).build(); both run under catch_unwind
        let path = args.get(1).expect("from-file PATH").clone();
        let p2 = path.clone();
        let a = std::panic::catch_unwind(move || RegExpBuilder::from_file(p2).build());
        let lines: Vec<String> = std::fs::read_to_string(&path).map(|c| c.lines().map(|l| l.to_string()).collect()).unwrap_or_default();
        let b = std::panic::catch_unwind(move || RegExpBuilder::from(&lines).build());
        let show = |r: &std::thread::Result<String>| match r { Ok(s) => format!("Ok({s:?})"), Err(e) => format!("panic({:?})", e.downcast_ref::<String>().cloned().or_else(|| e.downcast_ref::<&str>().map(|x| x.to_string())).unwrap_or_default()) };
        println!("from_file: {}", show(&a)); println!("from(lines): {}", show(&b));
        let same = match (&a, &b) { (Ok(x), Ok(y)) => x == y, (Err(_), Err(_)) => show(&a) == show(&b), _ => false };
        if !same { println!("FAIL: from_file does not behave like from() on the file's lines"); std::process::exit(1) }
        println!("ok: same behaviour"); std::process::exit(0)
    }
    if args.first().map(|a| a == "threshold-panic").unwrap_or(false) {
        // `threshold-panic rep|len MESSAGE`: the setter called with 0 must panic with exactly MESSAGE (the documented message)
        let which = args.get(1).cloned().unwrap_or_default(); let want = args.get(2).cloned().unwrap_or_default();
        let r = std::panic::catch_unwind(move || { let mut b = RegExpBuilder::from(&["a"]); if which == "rep" { b.with_minimum_repetitions(0); } else { b.with_minimum_substring_length(0); } });
        let got = match &r { Ok(_) => "<no panic>".to_string(), Err(e) => e.downcast_ref::<String>().cloned().or_else(|| e.downcast_ref::<&str>().map(|x| x.to_string())).unwrap_or_default() };
        println!("panic message: {got:?}\ndocumented:    {want:?}");
        if got != want { println!("FAIL: not the documented message"); std::process::exit(1) }
        println!("ok"); std::process::exit(0)
    }
    if args.first().map(|a| a == "py-escapes").unwrap_or(false) { py_escapes(args.get(1).map(|x| x.as_str()).unwrap_or("")) }
    if args.first().map(|a| a == "hunt-prop").unwrap_or(false) { hunt_prop(args.get(1).map(|x| x.as_str()).unwrap_or("")) }
    if args.first().map(|a| a == "hunt-sound").unwrap_or(false) { hunt_sound() }
    if args.first().map(|a| a == "hunt-lang").unwrap_or(false) { hunt_lang(args.iter().any(|a| a == "--ignore-kf1")) }
    let split = args.iter().position(|a| a == "--").expect("usage: ... -- TESTCASE...");
    let (opts, cases) = (&args[..split], &args[split + 1..]);
    let cases: Vec<String> = cases.iter().map(|c| decode(c)).collect();
    let mut b = RegExpBuilder::from(&cases);
    let (mut must, mut must_not, mut expect, mut soundness, mut search) = (vec![], vec![], None, true, false);
    let mut i = 0;
    while i < opts.len() {
        let val = |i: usize| opts.get(i + 1).expect("option needs a value").clone();
        match opts[i].as_str() {
            "--digits" => { b.with_conversion_of_digits(); }
            "--non-digits" => { b.with_conversion_of_non_digits(); }
            "--spaces" => { b.with_conversion_of_whitespace(); }
            "--non-spaces" => { b.with_conversion_of_non_whitespace(); }
            "--words" => { b.with_conversion_of_words(); }
            "--non-words" => { b.with_conversion_of_non_words(); }
            "--repetitions" => { b.with_conversion_of_repetitions(); }
            "--ignore-case" => { b.with_case_insensitive_matching(); }
            "--capture-groups" => { b.with_capturing_groups(); }
            "--verbose" => { b.with_verbose_mode(); }
            "--escape" => { b.with_escaping_of_non_ascii_chars(false); }
            "--escape-surrogates" => { b.with_escaping_of_non_ascii_chars(true); }
            "--no-start-anchor" => { b.without_start_anchor(); }
            "--no-end-anchor" => { b.without_end_anchor(); }
            "--no-anchors" => { b.without_anchors(); }
            "--min-rep" => { b.with_minimum_repetitions(val(i).parse().unwrap()); i += 1; }
            "--min-len" => { b.with_minimum_substring_length(val(i).parse().unwrap()); i += 1; }
            "--must-match" => { must.push(decode(&val(i))); i += 1; }
            "--must-not-match" => { must_not.push(decode(&val(i))); i += 1; }
            "--expect-regex" => { expect = Some(decode(&val(i))); i += 1; }
            "--expect-raw" => { expect = Some(val(i)); i += 1; }          // the expected text as it is (escapes stay escapes)
            "--no-soundness" => { soundness = false; }
            "--search" => { search = true; }
            o => panic!("unknown option {o}"),
        }
        i += 1;
    }
    // C07: build() must return for every input and every combination of settings (the documented panics sit in the constructor and the threshold setters)
    let out = match std::panic::catch_unwind(std::panic::AssertUnwindSafe(|| b.build())) {
        Ok(out) => out,
        Err(e) => { println!("FAIL: build() panicked: {}", e.downcast_ref::<String>().cloned().or_else(|| e.downcast_ref::<&str>().map(|x| x.to_string())).unwrap_or_default().lines().next().unwrap_or("")); std::process::exit(1) }
    };
    println!("regex: {out}");
    let mut ok = true;
    let re = match Regex::new(&out) {
        Ok(r) => r,
        // surrogate-pair output is not meant for the regex crate: with --no-soundness only the expected text is compared
        Err(_) if !soundness && must.is_empty() && must_not.is_empty() => {
            if let Some(e) = &expect { let r = *e == out; println!("{} expected expression {:?}", if r { "ok:" } else { "FAIL:" }, e); std::process::exit(if r { 0 } else { 1 }) }
            std::process::exit(0)
        }
        Err(e) => { println!("FAIL: expression does not compile: {e}"); std::process::exit(1); }
    };
    let full = |s: &str| -> bool {
        if search { re.find(s).map_or(false, |m| m.as_str() == s) }
        else { re.find_iter(s).count() == 1 && re.find(s).map_or(false, |m| m.start() == 0 && m.end() == s.len()) }
    };
    if soundness {
        for c in &cases {
            let r = full(c);
            println!("{} test case {:?} {}", if r { "ok:" } else { "FAIL:" }, c, if r { "matched" } else { "NOT matched" });
            ok &= r;
        }
    }
    for s in &must { let r = re.is_match(s); println!("{} {:?} must match", if r { "ok:" } else { "FAIL:" }, s); ok &= r; }
    for s in &must_not { let r = !re.is_match(s); println!("{} {:?} must not match", if r { "ok:" } else { "FAIL:" }, s); ok &= r; }
    if let Some(e) = expect { let r = e == out; println!("{} expected expression {:?}", if r { "ok:" } else { "FAIL:" }, e); ok &= r; }
    std::process::exit(if ok { 0 } else { 1 });
}
