"""BOUNDED stand-in (thorough tier of C05, C10, C13, C16; labelled bounded, never counted as proved) for the contract unit `repeats` ASSUMES of the
detection stage of cluster.rs (three itertools functions outside the Verus dialect): a #[cfg(test)] module is appended to a scratch copy of the
current tree (never to /repo) and enumerates every list of plain graphemes over {a,b} up to length LEN2 and over {a,b,c} up to length LEN3 under three
threshold settings.  It checks (1) `detection_ok` on what the real detection functions return and (2) that the whole conversion returns a list that
stands for the same symbols."""
import os, re, shutil, subprocess, tempfile, time
HERE = os.path.dirname(os.path.abspath(__file__)); ROOT = os.path.dirname(HERE)
LEN2, LEN3 = 12, 8

def run(repo, build_dir, timeout=1500):
    work = tempfile.mkdtemp(prefix='vxbounded_')
    t0 = time.time()
    res = {'name': 'detection-contract', 'label': 'bounded', 'counted_as_proved': False,
           'bound': 'all lists of plain graphemes over {a,b} up to length %d and over {a,b,c} up to length %d; (minimum repetitions, minimum substring length) in {(1,1), (2,1), (1,2)}' % (LEN2, LEN3),
           'claim': 'collect_repeated_substrings -> create_ranges_of_repetitions -> coalesce_repetitions deliver `detection_ok` (the precondition unit repeats assumes), and convert_repetitions returns a list that stands for the same symbols; two runs (two hash maps with different keys) detect the same ranges'}
    try:
        shutil.copytree(os.path.join(repo, 'src'), os.path.join(work, 'src'))
        for f in ('Cargo.toml', 'Cargo.lock'): shutil.copy(os.path.join(repo, f), work)
        os.makedirs(os.path.join(work, 'benches'), exist_ok=True)
        bsrc = os.path.join(repo, 'benches', 'benchmark.rs')
        if os.path.exists(bsrc): shutil.copy(bsrc, os.path.join(work, 'benches'))
        h = open(os.path.join(HERE, 'bounded_harness.rs')).read().replace('VX_LEN2', str(LEN2)).replace('VX_LEN3', str(LEN3))
        with open(os.path.join(work, 'src', 'cluster.rs'), 'a') as f: f.write(h)
        env = dict(os.environ, CARGO_NET_OFFLINE='true', CARGO_TARGET_DIR=os.path.join(build_dir, 'bounded_target'))
        cmd = ['cargo', 'test', '--offline', '--lib', 'vx_bounded', '--', '--nocapture', '--test-threads', '2']
        res['cmd'] = ' '.join(cmd) + '   (scratch copy of the tree with vx/bounded_harness.rs appended to src/cluster.rs)'
        p = subprocess.run(cmd, cwd=work, env=env, capture_output=True, text=True, timeout=timeout)
        out = p.stdout + '\n' + p.stderr
        fails = re.findall(r'VX-BOUNDED-FAIL kind=(\w+) (.*)', out)
        oks = [int(x) for x in re.findall(r'VX-BOUNDED-OK inputs=(\d+)', out)]
        if fails:
            kind, detail = fails[0]
            res.update(status='violation' if kind == 'symbols' else 'assumption_broken', detail=detail[:600], log=out[-3000:])
        elif len(oks) == 2 and 'test result: ok' in out:
            res.update(status='ok', inputs_explored=sum(oks), detail='no input within the bound breaks the contract')
        else:
            res.update(status='tool', detail='no verdict (rc=%s): %s' % (p.returncode, out[-400:].replace('\n', ' | ')))
    except subprocess.TimeoutExpired:
        res.update(status='tool', detail='no result within %d s' % timeout)
    except Exception as e:
        res.update(status='tool', detail=repr(e))
    finally:
        shutil.rmtree(work, ignore_errors=True)
    res['wall_s'] = round(time.time() - t0, 1)
    return res

if __name__ == '__main__':
    import sys, json
    print(json.dumps(run(sys.argv[1] if len(sys.argv) > 1 else '/repo', os.path.join(ROOT, 'build')), indent=1))
