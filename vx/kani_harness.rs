
// ---- appended by /verif/vx/kani.py to a scratch copy of src/cluster.rs (never to /repo) ----
// Obligation: for EVERY scalar value c the real look-up function (lazy_static Vec<CharRange> + iter().any()) answers
// exactly "c lies in one of the ranges of the const table".  The only loops are bounded by the constant table length;
// with unwinding assertions on, the proof is complete over all 1,112,064 values of `char` (not a bounded stand-in).
#[cfg(kani)]
mod vx_kani {
    use super::*;

    fn in_table(table: &[(char, char)], c: char) -> bool {
        let mut found = false;
        let mut i = 0;
        while i < table.len() {
            if table[i].0 <= c && c <= table[i].1 {
                found = true;
            }
            i += 1;
        }
        found
    }

    #[kani::proof]
    #[kani::unwind(VX_UNWIND_DIGIT)]
    fn vx_lookup_digit() {
        let c: char = kani::any();
        assert!(is_digit(c) == in_table(DECIMAL_NUMBER, c));
    }

    #[kani::proof]
    #[kani::unwind(VX_UNWIND_SPACE)]
    fn vx_lookup_space() {
        let c: char = kani::any();
        assert!(is_space(c) == in_table(WHITE_SPACE, c));
    }

    #[kani::proof]
    #[kani::unwind(VX_UNWIND_WORD)]
    fn vx_lookup_word() {
        let c: char = kani::any();
        assert!(is_word(c) == in_table(WORD, c));
    }

    // vacuity guard: must FAIL (shows the harness really reaches the assertion with a table member)
    #[kani::proof]
    #[kani::unwind(VX_UNWIND_SPACE)]
    fn vx_canary_space() {
        let c: char = kani::any();
        assert!(!is_space(c));
    }
}
