#!/usr/bin/env python3
"""Seeded-change bookkeeping.
  seeded.py confirm <src_dir> <i> <seed_id>   confirm a sub-agent's change in a fresh scratch worktree (suite passes with it,
                                              demo fails with it, demo passes without it) and file it under /verif/seeded/<seed_id>/
  seeded.py detect <seed_id> [props...]       apply seeded/<seed_id>/patch.diff to /repo, run the quick checks, undo; record who caught it
  seeded.py detect-all
"""
import sys, os, json, subprocess, shutil, tempfile, re, time
HERE = os.path.dirname(os.path.abspath(__file__)); ROOT = os.path.dirname(HERE)
SEEDED = os.path.join(ROOT, 'seeded')
SUITE = 'cargo nextest run --workspace --no-fail-fast --offline --test-threads 8'
ALL = ['C01', 'C02', 'C03', 'C04', 'C05', 'C06', 'C07', 'C08', 'C09', 'C10', 'C11', 'C12', 'C13', 'C14', 'C15', 'C16', 'C17']

def sh(cmd, cwd=None, timeout=3600):
    p = subprocess.run(cmd, shell=True, cwd=cwd, capture_output=True, text=True, timeout=timeout)
    return p.returncode, p.stdout + p.stderr

def confirm(src, i, sid):
    patch = os.path.join(src, 'patch%s.diff' % i)
    demo_rs, demo_patch = os.path.join(src, 'demo%s.rs' % i), os.path.join(src, 'demo%s.patch' % i)
    meta = json.load(open(os.path.join(src, 'meta%s.json' % i)))
    wt = tempfile.mkdtemp(prefix='vxseed_', dir='/tmp'); os.rmdir(wt)
    rc, out = sh('git -C /repo worktree add -q --detach %s HEAD' % wt)
    assert rc == 0, out
    res = {}
    try:
        def demo(tag):
            if os.path.exists(demo_rs):
                shutil.copy(demo_rs, os.path.join(wt, 'tests', 'seed_demo.rs'))
                rc, out = sh('cargo nextest run --offline --test seed_demo --no-fail-fast', cwd=wt)
                os.remove(os.path.join(wt, 'tests', 'seed_demo.rs'))
            else:
                rc0, o0 = sh('git apply %s' % demo_patch, cwd=wt); assert rc0 == 0, o0
                rc, out = sh(meta.get('demo_cmd_in_worktree') or 'cargo nextest run --offline --lib --no-fail-fast seed_demo', cwd=wt)
                sh('git apply -R %s' % demo_patch, cwd=wt)
            res['demo_' + tag] = {'rc': rc, 'tail': out.strip().splitlines()[-3:]}
            return rc
        r_clean = demo('without_change')
        rc, out = sh('git apply %s' % patch, cwd=wt); assert rc == 0, out
        rc, out = sh(SUITE, cwd=wt)
        m = re.search(r'(\d+) tests run: (\d+) passed(?: \((\d+) flaky\))?(?:, (\d+) failed)?', out)
        res['suite_with_change'] = {'rc': rc, 'summary': m.group(0) if m else out[-300:]}
        failed = re.findall(r'^\s+FAIL \[.*?\] +(?:\(\S+\) +)?(\S+ \S+)$', out, re.M)
        res['suite_failed_tests'] = sorted(set(failed))
        r_mut = demo('with_change')
        ok = r_clean == 0 and r_mut != 0 and (rc == 0 or set(t.split()[-1] for t in failed) <= {'matching_regexes_with_case_insensitive_matching_and_verbose_mode', 'matching_regexes_with_case_insensitive_matching'})    # the two case-insensitive proptests are flaky on the unchanged tree (D6)
        res['confirmed'] = ok
    finally:
        sh('git -C /repo worktree remove --force %s' % wt)
    print(json.dumps(res, indent=1))
    if res.get('confirmed'):
        d = os.path.join(SEEDED, sid); os.makedirs(d, exist_ok=True)
        shutil.copy(patch, os.path.join(d, 'patch.diff'))
        if os.path.exists(demo_rs): shutil.copy(demo_rs, os.path.join(d, 'demo.rs'))
        else: shutil.copy(demo_patch, os.path.join(d, 'demo.patch'))
        meta.update(confirmed_by='vx/seeded.py confirm (fresh worktree of /repo HEAD): suite `%s` with the change; demo as tests/seed_demo.rs with and without the change' % SUITE, confirmation=res)
        json.dump(meta, open(os.path.join(d, 'meta.json'), 'w'), indent=1)
    return res.get('confirmed')

def reconfirm(sid):
    """re-run the confirmation of a filed seed on the current /repo HEAD (after a fix: commit changed the tree); prints whether it still is a seed"""
    d = os.path.join(SEEDED, sid); src = tempfile.mkdtemp(prefix='vxre_')
    try:
        shutil.copy(os.path.join(d, 'patch.diff'), os.path.join(src, 'patch1.diff'))
        if os.path.exists(os.path.join(d, 'demo.rs')): shutil.copy(os.path.join(d, 'demo.rs'), os.path.join(src, 'demo1.rs'))
        else: shutil.copy(os.path.join(d, 'demo.patch'), os.path.join(src, 'demo1.patch'))
        m = json.load(open(os.path.join(d, 'meta.json')))
        keep = {k: m[k] for k in m if k in ('detection_quick',)}
        for k in ('confirmation', 'confirmed_by', 'detection_quick'): m.pop(k, None)
        json.dump(m, open(os.path.join(src, 'meta1.json'), 'w'), indent=1)
        ok = confirm(src, 1, sid)
        print('RECONFIRM', sid, 'still a seed' if ok else 'NO LONGER CONFIRMED')
        return ok
    finally:
        shutil.rmtree(src, ignore_errors=True)

def detect_scratch(sid, props=None):
    """development aid: same as detect but on a scratch copy of /repo (no witness replay, /repo untouched); not recorded as the official result"""
    d = os.path.join(SEEDED, sid)
    tmp = tempfile.mkdtemp(prefix='vxdet_')
    res = {}
    try:
        shutil.copytree('/repo/src', tmp + '/src'); shutil.copytree('/repo/benches', tmp + '/benches')
        for f in ('Cargo.toml', 'Cargo.lock'): shutil.copy('/repo/' + f, tmp)
        sh('git init -q . && git add -A && git -c user.email=x@x -c user.name=x commit -qm base', cwd=tmp)
        rc, out = sh('git apply %s' % os.path.join(d, 'patch.diff'), cwd=tmp); assert rc == 0, out
        for p in (props or ALL):
            if p == 'C09' and not props: continue
            rc, out = sh('./check %s --tier quick --repo %s --out /tmp/vx_seed_evidence' % (p, tmp), cwd=ROOT, timeout=1800)
            lines = [l for l in out.splitlines() if l.startswith(('VIOLATION', 'UNDECIDED', 'OK', 'KNOWN'))]
            res[p] = {'rc': rc, 'lines': [l[:300] for l in lines]}
    finally:
        shutil.rmtree(tmp, ignore_errors=True)
    print(sid, 'caught_by', sorted(p for p, r in res.items() if r['rc'] == 1), 'undecided', sorted(p for p, r in res.items() if r['rc'] == 2))
    for p, r in res.items():
        if r['rc'] != 0:
            for l in r['lines']:
                if not l.startswith(('KNOWN', 'OK')): print('   ', p, l[:260])
    return res

def detect(sid, props=None):
    d = os.path.join(SEEDED, sid)
    rc, out = sh('git -C /repo status --porcelain --untracked-files=no')
    assert out.strip() == '', '/repo is not clean: ' + out
    rc, out = sh('git -C /repo apply %s' % os.path.join(d, 'patch.diff'))
    if rc != 0:      # the code the patch edits has changed (e.g. by a fix: commit): the seed has to be rebased or retired, the sweep goes on
        print(sid, 'PATCH DOES NOT APPLY:', out.strip()[:200]); sh('git -C /repo checkout -- .'); return
    res = {}
    meta0 = json.load(open(os.path.join(d, 'meta.json')))
    plist = props or [p for p in ALL if p != 'C09' or str(meta0.get('property', '')).startswith('C09')]
    def one(p):
        t0 = time.time()
        rc, out = sh('./check %s --tier quick --out /tmp/vx_seed_evidence' % p, cwd=ROOT, timeout=1800)
        lines = [l for l in out.splitlines() if l.startswith(('VIOLATION', 'UNDECIDED', 'OK', 'KNOWN'))]
        return p, {'rc': rc, 'lines': [l[:400] for l in lines], 'wall_s': round(time.time() - t0, 1)}
    try:
        # build the replay binary once against the patched tree (the checks then only run it)
        sh('cp /repo/Cargo.lock replay/Cargo.lock; cd replay && CARGO_NET_OFFLINE=true CARGO_TARGET_DIR=../build/replay_target cargo build --offline --quiet', cwd=ROOT)
        from concurrent.futures import ThreadPoolExecutor
        with ThreadPoolExecutor(max_workers=5) as ex:
            for p, r in ex.map(one, plist): res[p] = r
    finally:
        sh('git -C /repo checkout -- .')
    meta = json.load(open(os.path.join(d, 'meta.json')))
    meta['detection_quick'] = {'checks_run': plist, 'how': 'vx/seeded.py detect: git -C /repo apply patch.diff; ./check <P> --tier quick for the listed properties (C09 only for changes that target C09: its Kani part takes a minute and touches nothing else); git -C /repo checkout -- .', 'caught_by': sorted(p for p, r in res.items() if r['rc'] == 1), 'undecided': sorted(p for p, r in res.items() if r['rc'] == 2),
                               'details': {p: r['lines'] for p, r in res.items() if r['rc'] != 0}}
    json.dump(meta, open(os.path.join(d, 'meta.json'), 'w'), indent=1)
    print(sid, json.dumps(meta['detection_quick'], indent=1))

def table():
    rows = []
    for sid in sorted(x for x in os.listdir(SEEDED) if not x.startswith('_')):
        m = json.load(open(os.path.join(SEEDED, sid, 'meta.json')))
        dq = m.get('detection_quick', {})
        caught = dq.get('caught_by', [])
        obl = []
        for p, lines in dq.get('details', {}).items():
            for l in lines:
                mm = re.search(r'obligation=(\S+)', l)
                if mm and mm.group(1) not in obl: obl.append(mm.group(1))
        wit = any('failing-input=' in l for lines in dq.get('details', {}).values() for l in lines)
        und = dq.get('undecided', [])
        res = ('caught: ' + ', '.join(caught)) if caught else ('UNDECIDED: ' + ', '.join(und) if und else 'not caught')
        if m.get('detection_thorough'): res += '; thorough: ' + m['detection_thorough']
        rows.append('| `%s` | %s | %s | %s | %s%s |' % (sid, m.get('property', '?'), (m.get('summary') or '')[:150].replace('|', '/').replace('\n', ' '), (m.get('needs_to_manifest') or '')[:110].replace('|', '/').replace('\n', ' '), res, ('; obligations: ' + ', '.join('`%s`' % o for o in obl[:3])) if obl else '') + (' **replayed input**' if wit else ''))
    head = '| seeded change | targets | what was changed | needs to manifest | quick checks |\n|---|---|---|---|---|\n'
    txt = head + '\n'.join(rows) + '\n\n%d seeded changes; %d caught by at least one quick check, %d of them with a concrete failing input replayed on the real library; %d undecided only; %d not caught.' % (
        len(rows), sum('caught:' in r for r in rows), sum('replayed input' in r for r in rows), sum('UNDECIDED' in r and 'caught:' not in r for r in rows), sum('| not caught' in r for r in rows))
    d = open(os.path.join(ROOT, 'DESIGN.md')).read()
    a, z = d.index('<!-- SEEDED-TABLE-BEGIN -->'), d.index('<!-- SEEDED-TABLE-END -->')
    open(os.path.join(ROOT, 'DESIGN.md'), 'w').write(d[:a] + '<!-- SEEDED-TABLE-BEGIN -->\n' + txt + '\n' + d[z:])
    print(txt[-300:])

if __name__ == '__main__':
    cmd = sys.argv[1]
    if cmd == 'confirm': sys.exit(0 if confirm(sys.argv[2], sys.argv[3], sys.argv[4]) else 1)
    if cmd == 'reconfirm':
        for s in sys.argv[2:]: reconfirm(s)
    if cmd == 'detect': detect(sys.argv[2], sys.argv[3:] or None)
    if cmd == 'scratch': detect_scratch(sys.argv[2], sys.argv[3:] or None)
    if cmd == 'scratch-all':
        for sid in sorted(x for x in os.listdir(SEEDED) if not x.startswith('_')): detect_scratch(sid)
    if cmd == 'table': table()
    if cmd == 'detect-all':
        only = sys.argv[2:]
        for sid in sorted(x for x in os.listdir(SEEDED) if not x.startswith('_')):
            if not only or any(sid.startswith(o) for o in only): detect(sid)
