"""Assemble one single-file Verus crate per unit from extracted repo text + contracts, keeping a line map."""
import re, os
from . import extract as X, dialect as D, rustlex as L

class Clause:
    def __init__(self, label, text, props, kind='ensures'):
        self.label, self.text, self.props, self.kind = label, text, props, kind

class Builder:
    def __init__(self, unit, repo, canary=False):
        self.unit, self.repo, self.canary = unit, repo, canary
        self.canary_lines = {}
        self.lines = []          # output lines
        self.linemap = {}        # 1-based line -> (function, clause label, props)
        self.fn_ranges = []      # (first line, last line, function, props)
        self.log = D.Log()
        self.obligations = []    # (label, props)
        self.trusted = []        # human-readable trusted-base entries
        self._src = {}
    def src(self, f):
        if f not in self._src:
            self._src[f] = open(os.path.join(self.repo, 'src', f)).read()
        return self._src[f]
    def emit(self, text):
        for ln in text.split('\n'):
            self.lines.append(ln)
    def lineno(self): return len(self.lines) + 1
    # ---- items -------------------------------------------------------------
    def type_item(self, f, header, pub_all_fields=True, rename=None):
        t, _, _ = X.item(self.src(f), header)
        where = '%s:%s' % (f, header)
        t = D.strip_attrs_and_docs(t, self.log, where)
        t = D.widen_visibility(t, self.log, where)
        if pub_all_fields: t = D.pub_fields(t, self.log, where)
        if rename:
            t = re.sub(r'\b%s\b' % rename[0], rename[1], t)
        self.emit(t)
    def _prep_fn(self, f, name, within=None, extra_rules=()):
        t, _, _ = X.fn(self.src(f), name, within)
        where = '%s::%s' % (f, name)
        t = D.strip_attrs_and_docs(t, self.log, where)
        t = D.widen_visibility(t, self.log, where)
        t = D.apply_rules(t, self.log, where, extra_rules)
        return t, where
    def _split_sig(self, t):
        bo = L.body_open(t, 0)
        return t[:bo].rstrip(), t[bo:]
    def _name_ret(self, sig):
        m = re.search(r'\)\s*->\s*(.+)$', sig, re.S)
        if m and not m.group(1).lstrip().startswith('(r:'):
            sig = sig[:m.start()] + ') -> (r: ' + m.group(1).strip() + ')'
        return sig
    def _emit_contract(self, fname, requires, clauses, decreases, props_default):
        if requires:
            self.emit('        requires')
            for r in requires:
                self.emit('            %s,' % r)
        if clauses:
            self.emit('        ensures')
            for c in clauses:
                first = self.lineno()
                self.emit('            %s,' % c.text)
                for ln in range(first, self.lineno()):
                    self.linemap[ln] = (fname, c.label, c.props)
                self.obligations.append((c.label, c.props))
        if self.canary:
            if not clauses: self.emit('        ensures')
            self.canary_lines[self.lineno()] = fname
            self.emit('            crate::vx_canary(%d) ==> false,' % len(self.canary_lines))
        if decreases:
            self.emit('        decreases %s' % decreases)
    def verified_fn(self, f, name, within=None, requires=(), clauses=(), decreases=None, props=(), loops=None, blocks=None, extra_rules=(), fname=None, desugar_continue=False, pre=None, reveal=None, attr=None):
        t, where = self._prep_fn(f, name, within, extra_rules)
        if pre: t = pre(t, self.log, where)
        if reveal is not None: t = self.reveal_literals(t, reveal, where)
        if desugar_continue: t = D.desugar_continue(t, self.log, where)
        sig, body = self._split_sig(t)
        sig = self._name_ret(sig)
        fname = fname or name
        if loops: body = self._annotate_loops(body, loops, where)
        if blocks: body = self._insert_blocks(body, blocks, where)
        first = self.lineno()
        if attr: self.emit('    ' + attr)
        self.emit(sig)
        self._emit_contract(fname, requires, clauses, decreases, props)
        bstart = self.lineno()
        self.emit('    ' + body.lstrip())
        for off, ln in enumerate(self.lines[bstart - 1:]):
            mm = re.search(r'/\*#([^#]+)#\*/', ln)
            if mm:
                lab = mm.group(1)
                self.linemap[bstart + off] = (fname, lab, getattr(self, '_inv_labels', {}).get(lab, list(props)))
                self.obligations.append((lab, getattr(self, '_inv_labels', {}).get(lab, list(props))))
        self._map_block_lines(first, fname)
        self.fn_ranges.append((first, self.lineno() - 1, fname, list(props), fname + '.safety'))
        self.obligations.append((fname + '.safety', list(props)))
    def assumed_fn(self, f, name, within=None, requires=(), ensures=(), why=''):
        t, where = self._prep_fn(f, name, within)
        sig, _ = self._split_sig(t)
        sig = self._name_ret(sig)
        self.emit('    #[verifier::external_body]')
        self.emit(sig)
        if requires:
            self.emit('        requires ' + ', '.join(requires) + ',')
        if ensures:
            self.emit('        ensures')
            for e in ensures: self.emit('            %s,' % e)
        self.emit('    { unimplemented!() }')
        self.trusted.append('assumed contract of %s (%s): %s' % (where, why, '; '.join(ensures) or 'no postcondition'))
        self.log.add('R9', where, 'body', 'dropped (external_body)')
    def _annotate_loops(self, body, loops, where):
        # R2: name the n-th `for` loop and insert its invariant
        n = [0]
        self._pending_inv = []
        self._inv_labels = {}
        for k, inv in loops.items():
            for i in inv:
                if not isinstance(i, str): self._inv_labels[i[0]] = i[1]
        def rep(m):
            n[0] += 1
            inv = loops.get(n[0])
            if inv is None: return m.group(0)
            self.log.add('R2', where, m.group(0), 'for .. in it%d: .. invariant ..' % n[0])
            ind = m.group(1)
            self._pending_inv.append((n[0], inv))
            ebt, invt, ent = self._inv_text(inv, ind)
            return '%sfor %s in it%d: %s\n%s%s%s%s{' % (ind, m.group(2), n[0], m.group(3).strip(), ebt, invt, ent, ind)
        body = re.sub(r'^([ \t]*)for (.+?) in (.+?) \{$', rep, body, flags=re.M)
        # `while` loops are addressed as 'w1', 'w2', .. (source order); they keep their condition and get the invariant list
        wn = [0]
        def repw(m):
            wn[0] += 1
            inv = loops.get('w%d' % wn[0])
            if inv is None: return m.group(0)
            self.log.add('R2', where, m.group(0), 'while ..: invariant ..')
            ind = m.group(1)
            ebt, invt, ent = self._inv_text(inv, ind)
            return '%swhile %s\n%s%s%s%s{' % (ind, m.group(2), ebt, invt, ent, ind)
        return re.sub(r'^([ \t]*)while (.+?) \{$', repw, body, flags=re.M)
    def _inv_text(self, inv, ind):
        """entries: text | (label, props, text); prefix '!break ' => invariant_except_break, '!ensures ' => loop ensures"""
        txt = lambda i: i if isinstance(i, str) else i[2]
        def strip(i, pre):
            return txt(i)[len(pre):] if isinstance(i, str) else '/*#%s#*/ ' % i[0] + i[2][len(pre):]
        eb = [strip(i, '!break ') for i in inv if txt(i).startswith('!break ')]
        en = [strip(i, '!ensures ') for i in inv if txt(i).startswith('!ensures ')]
        rest = [strip(i, '') for i in inv if not txt(i).startswith('!break ') and not txt(i).startswith('!ensures ')]
        ebt = ('%s    invariant_except_break\n%s\n' % (ind, '\n'.join(ind + '        ' + i + ',' for i in eb))) if eb else ''
        invt = ('%s    invariant\n%s\n' % (ind, '\n'.join(ind + '        ' + i + ',' for i in rest))) if rest else ''
        ent = ('%s    ensures\n%s\n' % (ind, '\n'.join(ind + '        ' + i + ',' for i in en))) if en else ''
        return ebt, invt, ent
    def _insert_blocks(self, body, blocks, where):
        # R2b: (anchor text, 'before'|'after'|'after_block'|'fn_end', ghost text)
        for blk in blocks:
            anchor, pos, text = blk[0], blk[1], blk[2]
            if len(blk) > 3:
                lab, props = blk[3]
                text = '\n'.join(ln + ' /*@%s@*/' % lab for ln in text.split('\n'))
                self._block_labels = getattr(self, '_block_labels', {}); self._block_labels[lab] = props
            if pos in ('loop_start', 'loop_end', 'loop_before', 'loop_after'):
                # anchor is the 1-based ordinal of the `for` loop (in source order, after R2 naming: `in itN:`)
                i = L.find_code(body, ' in it%d: ' % anchor)
                if i < 0: raise X.LostAnchor('%s: loop %s' % (where, anchor))
                j = i
                while True:          # the loop body is the first `{` at depth 0 after the invariant list
                    bo = L.body_open(body, j)
                    # skip braces that belong to the invariant expressions: the body brace is on a line of its own
                    ls = body.rfind('\n', 0, bo) + 1
                    if body[ls:bo].strip() == '': break
                    j = L.match_close(body, bo) + 1
                bc = L.match_close(body, bo)
                if pos == 'loop_after':
                    le = body.find('\n', bc)
                    body = body[:le + 1] + text + '\n' + body[le + 1:]
                elif pos == 'loop_before':
                    ls = body.rfind('\n', 0, i) + 1
                    body = body[:ls] + text + '\n' + body[ls:]
                elif pos == 'loop_start':
                    le = body.find('\n', bo)
                    body = body[:le + 1] + text + '\n' + body[le + 1:]
                else:
                    ls = body.rfind('\n', 0, bc) + 1
                    body = body[:ls] + text + '\n' + body[ls:]
                self.log.add('R2b', where, 'loop %s' % anchor, 'ghost block ' + pos); continue
            if pos == 'before_tail':
                # before the last top-level statement / tail expression of the body (body may or may not carry its enclosing braces)
                inner0 = body.find('{') + 1 if body.lstrip().startswith('{') else 0
                inner1 = body.rstrip().rfind('}') if inner0 else len(body)
                st = L.split_stmts(body[inner0:inner1])
                a = inner0 + st[-1][0]
                ls = body.rfind('\n', 0, a) + 1
                body = body[:ls] + text + '\n' + body[ls:]
                self.log.add('R2b', where, 'before tail expression', 'ghost block'); continue
            if pos == 'fn_start':
                bo = body.index('{')
                body = body[:bo + 1] + '\n' + text + body[bo + 1:]
                self.log.add('R2b', where, 'fn start', 'ghost block'); continue
            if pos == 'fn_end':
                e = body.rstrip().rfind('}')
                ls = body.rfind('\n', 0, e) + 1
                body = body[:ls] + text + '\n' + body[ls:]
                self.log.add('R2b', where, 'fn end', 'ghost block'); continue
            i = L.find_code(body, anchor)
            if i < 0: raise X.LostAnchor('%s: %s' % (where, anchor))
            if pos == 'before':
                ls = body.rfind('\n', 0, i) + 1
                body = body[:ls] + text + '\n' + body[ls:]
            elif pos == 'after':
                le = body.find('\n', i + len(anchor))
                body = body[:le + 1] + text + '\n' + body[le + 1:]
            elif pos == 'after_block':
                bo = L.body_open(body, i)
                bc = L.match_close(body, bo)
                le = body.find('\n', bc)
                body = body[:le + 1] + text + '\n' + body[le + 1:]
            self.log.add('R2b', where, anchor, 'ghost block ' + pos)
        return body
    def slice_fn(self, fname, sig, body, where, requires=(), clauses=(), props=(), extra_rules=(), prologue='', epilogue='', decreases=None, loops=None, blocks=None, pre=None, reveal=None, epilogue_before_tail=None):
        """R7: a closure body / statement range lifted into a generated fn `sig` (written by the unit), body byte-for-byte + dialect rules."""
        from . import dialect as D
        body = D.strip_attrs_and_docs(body, self.log, where)
        body = D.apply_rules(body, self.log, where, extra_rules)
        if pre: body = pre(body, self.log, where)
        if reveal is not None:
            self.reveal_literals('{' + body + '}', reveal, where)
            ghost = self._last_ghost
            prologue = (prologue + '\n' if prologue else '') + ghost.strip('\n')
        self.log.add('R7', where, 'slice', sig)
        if epilogue_before_tail:
            st = L.split_stmts(body)
            a = st[-1][0]; ls = body.rfind('\n', 0, a) + 1
            body = body[:ls] + epilogue_before_tail + '\n' + body[ls:]
        if loops: body = self._annotate_loops(body, loops, where)
        if blocks: body = self._insert_blocks(body, blocks, where)
        first = self.lineno()
        self.emit(sig)
        self._emit_contract(fname, requires, clauses, decreases, props)
        self.emit('{')
        if prologue: self.emit(prologue)
        bstart = self.lineno()
        self.emit(body)
        if loops:
            for off, ln in enumerate(self.lines[bstart - 1:]):
                mm = re.search(r'/\*#([^#]+)#\*/', ln)
                if mm:
                    lab = mm.group(1)
                    self.linemap[bstart + off] = (fname, lab, self._inv_labels.get(lab, list(props)))
                    self.obligations.append((lab, self._inv_labels.get(lab, list(props))))
        if epilogue: self.emit(epilogue)
        self.emit('}')
        self._map_block_lines(first, fname)
        self.fn_ranges.append((first, self.lineno() - 1, fname, list(props), fname + '.safety'))
        self.obligations.append((fname + '.safety', list(props)))
    def reveal_literals(self, t, extra, where):
        """R2c (ghost only): Verus treats string literals as opaque; `reveal_strlit` for every literal of the function and of its spec
        is inserted at the start of the body, mechanically (the literals are read from the text, so an edited literal is revealed too)."""
        bo = L.body_open(t, 0)
        lits, i = [], bo
        while i < len(t):
            k = L.skip_trivia_and_literals(t, i)
            if k != i:
                if t[i] == '"': lits.append(t[i:k])
                i = k
            else: i += 1
        seen, out = set(), []
        for l in list(lits) + list(extra):
            if l not in seen: seen.add(l); out.append(l)
        ghost = '\n        proof { ' + ' '.join('reveal_strlit(%s);' % l for l in out) + ' }'
        self.log.add('R2c', where, '%d string literals' % len(out), 'reveal_strlit(..) ghost prologue')
        self._last_ghost = ghost
        return t[:bo + 1] + ghost + t[bo + 1:]
    def _map_block_lines(self, first, fname):
        bl = getattr(self, '_block_labels', {})
        if not bl: return
        for ln in range(first, self.lineno()):
            mm = re.search(r'/\*@(.+?)@\*/', self.lines[ln - 1])
            if mm and mm.group(1) in bl:
                self.linemap[ln] = (fname, mm.group(1), bl[mm.group(1)])
        for lab, props in bl.items():
            if (lab, props) not in self.obligations: self.obligations.append((lab, props))
        self._block_labels = {}
    def lemma(self, label, props, text):
        """spec/proof text written by the unit (not extracted): one proof obligation `label`; any verifier error inside maps to it."""
        first = self.lineno()
        self.emit(text)
        self.fn_ranges.append((first, self.lineno() - 1, label, list(props), label))
        self.obligations.append((label, list(props)))
    def text(self):
        t = '\n'.join(self.lines) + '\n'
        if self.canary:
            # the flag is uninterpreted: a function can discharge its own `vx_canary(i) ==> false` only if its context is inconsistent
            t = t.replace('verus! {', 'verus! {\npub uninterp spec fn vx_canary(i: int) -> bool;', 1)
            shift = 1
            self.canary_lines = {k + shift: v for k, v in self.canary_lines.items()}
        return t
