"""Anchor-based extraction of items / functions / statements / closure bodies from Rust source text (byte-for-byte)."""
import re
from . import rustlex as L

class LostAnchor(Exception): pass

def _line_start(src, i):
    j = src.rfind('\n', 0, i)
    return j + 1

def item(src, header_regex):
    """struct/enum/impl/fn whose header matches header_regex (multiline regex, matched in code)."""
    for m in re.finditer(header_regex, src, re.M):
        # make sure the match is in code
        if L.find_code(src, m.group(0)[:min(len(m.group(0)), 12)], _line_start(src, m.start())) != m.start() and False:
            continue
        bo = L.body_open(src, m.start())
        if bo < 0: continue
        bc = L.match_close(src, bo)
        return src[m.start():bc + 1], m.start(), bc + 1
    raise LostAnchor(header_regex)

def fn(src, name, within=None):
    """fn item `name` (optionally inside the item whose header matches `within`)."""
    base, off = src, 0
    if within:
        text, s, e = item(src, within)
        base, off = text, s
    hdr = r'^[ \t]*(?:pub(?:\([a-z]+\))? )?(?:const )?(?:unsafe )?fn ' + re.escape(name) + r'\b'
    text, s, e = item(base, hdr)
    return text, off + s, off + e

def let_stmt(src, var):
    m = re.search(r'\blet (?:mut )?' + re.escape(var) + r'\b\s*(?::[^=;]+)?=', src)
    if not m: raise LostAnchor('let ' + var)
    e = L.stmt_end(src, m.start())
    return src[m.start():e + 1], m.start(), e + 1

def stmt_range(src, first_anchor, stop_anchor):
    a = L.find_code(src, first_anchor)
    if a < 0: raise LostAnchor(first_anchor)
    b = L.find_code(src, stop_anchor, a)
    if b < 0: raise LostAnchor(stop_anchor)
    return src[a:b], a, b

def block_after(src, anchor):
    """the `{...}` block that follows anchor text (e.g. a closure header `|c| ` or `.map(|it| `)."""
    a = L.find_code(src, anchor)
    if a < 0: raise LostAnchor(anchor)
    bo = src.index('{', a + len(anchor) - 1) if '{' in anchor else L.body_open(src, a + len(anchor))
    bc = L.match_close(src, bo)
    return src[bo:bc + 1], bo, bc + 1

def expr_chain_from(src, anchor):
    """an `if ... else if ... else {...}` expression starting at anchor (which begins with `if`)."""
    a = L.find_code(src, anchor)
    if a < 0: raise LostAnchor(anchor)
    j = a
    while True:
        bo = L.body_open(src, j)
        bc = L.match_close(src, bo)
        k = bc + 1
        m = re.match(r'\s*else\s*(if\b)?', src[k:])
        if not m: return src[a:bc + 1], a, bc + 1
        j = k + len(m.group(0))
        if not m.group(1):
            bo = src.index('{', j - 1) if src[j-1] == '{' else L.body_open(src, j)
            bc = L.match_close(src, bo)
            return src[a:bc + 1], a, bc + 1

def match_expr_after(src, anchor):
    """the `match SCRUTINEE { .. }` expression that follows anchor text (e.g. a closure header `|a, b| `)."""
    a = L.find_code(src, anchor)
    if a < 0: raise LostAnchor(anchor)
    s = a + len(anchor)
    m = re.match(r'\s*match\b', src[s:])
    if not m: raise LostAnchor(anchor + ' match')
    s += len(m.group(0)) - len('match')
    bo = L.body_open(src, s)
    bc = L.match_close(src, bo)
    return src[s:bc + 1], s, bc + 1

def if_stmt(src, anchor):
    """the `if COND { .. }` statement (without else) starting at anchor."""
    a = L.find_code(src, anchor)
    if a < 0: raise LostAnchor(anchor)
    bo = L.body_open(src, a)
    bc = L.match_close(src, bo)
    return src[a:bc + 1], a, bc + 1

def if_else_stmt(src, anchor):
    """the whole `if COND { .. } else if .. { .. } else { .. }` statement starting at anchor (every else branch included)."""
    a = L.find_code(src, anchor)
    if a < 0: raise LostAnchor(anchor)
    pos = a
    while True:
        bo = L.body_open(src, pos)
        bc = L.match_close(src, bo)
        m = re.match(r'\s*else\s*', src[bc + 1:])
        if not m: return src[a:bc + 1], a, bc + 1
        pos = bc + 1 + m.end()
        if not src.startswith('if ', pos):
            bc = L.match_close(src, pos)
            return src[a:bc + 1], a, bc + 1

def if_condition(src, anchor):
    """the condition text of the `if` that starts at anchor (anchor = 'if ' + beginning of the condition)."""
    a = L.find_code(src, anchor)
    if a < 0: raise LostAnchor(anchor)
    bo = L.body_open(src, a)
    return src[a + 3:bo].strip(), a + 3, bo

def closure_expr(src, anchor):
    """the expression body of a closure passed as the last argument of a call: anchor = `.all(|x| ` ; returns text up to the call's closing paren."""
    a = L.find_code(src, anchor)
    if a < 0: raise LostAnchor(anchor)
    po = src.index('(', a)
    pc = L.match_close(src, po)
    s = a + len(anchor)
    return src[s:pc].strip(), s, pc
