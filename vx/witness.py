"""Concrete witnesses: after an obligation has FAILED, look for an input on which the real library visibly breaks the
property, and replay it (replay/ crate = path dependency on /repo's working tree).  Never raises an alarm by itself."""
import os, subprocess, shlex, re
HERE = os.path.dirname(os.path.abspath(__file__)); ROOT = os.path.dirname(HERE)
TARGET = os.path.join(ROOT, 'build', 'replay_target')
BIN = os.path.join(TARGET, 'debug', 'vx-replay')
_built = {}

def build_replay():
    """(re)build the replay binary against /repo's current working tree; returns (ok, log)."""
    if 'r' in _built: return _built['r']
    env = dict(os.environ, CARGO_NET_OFFLINE='true', CARGO_TARGET_DIR=TARGET)
    try:
        lock = open('/repo/Cargo.lock').read()
        lp = os.path.join(ROOT, 'replay', 'Cargo.lock')
        # the replay crate resolves exactly the versions /repo pins (plus nothing new: regex is already a dependency of grex)
        if not os.path.exists(lp): open(lp, 'w').write(lock)
        p = subprocess.run(['cargo', 'build', '--offline', '--quiet'], cwd=os.path.join(ROOT, 'replay'), env=env, capture_output=True, text=True, timeout=900)
        _built['r'] = (p.returncode == 0, p.stderr[-3000:])
    except Exception as e:
        _built['r'] = (False, repr(e))
    return _built['r']

def _tree_key():
    try:
        h = subprocess.run('git -C /repo rev-parse HEAD; git -C /repo diff | sha1sum', shell=True, capture_output=True, text=True).stdout
        return h.strip().replace('\n', '|')
    except Exception:
        return None

def replay_on_real_code(args, timeout=300):
    # results of the (deterministic) bounded searches are cached per source tree: several obligations of one run ask for the same search
    import json, fcntl
    cache_file = os.path.join(ROOT, 'build', 'hunt_cache.json')
    key = None
    if args and args[0] in ('hunt-lang', 'hunt-sound', 'hunt-prop'):
        tk = _tree_key()
        if tk:
            key = tk + '|' + ' '.join(args)
            try:
                c = json.load(open(cache_file))
                if key in c: return c[key]
            except Exception: pass
    r = _replay_uncached(args, timeout)
    if key and r['rc'] in (0, 1):
        try:
            os.makedirs(os.path.dirname(cache_file), exist_ok=True)
            with open(cache_file + '.lock', 'w') as lk:
                fcntl.flock(lk, fcntl.LOCK_EX)
                try: c = json.load(open(cache_file))
                except Exception: c = {}
                if len(c) > 200: c = {}
                c[key] = r
                json.dump(c, open(cache_file, 'w'))
        except Exception: pass
    return r

def _replay_uncached(args, timeout=300):
    ok, log = build_replay()
    if not ok: return {'rc': -1, 'output': 'replay binary could not be built against the current tree:\n' + log}
    try:
        p = subprocess.run([BIN] + list(args), capture_output=True, text=True, timeout=timeout)
        return {'rc': p.returncode, 'output': p.stdout + p.stderr[-2000:]}
    except subprocess.TimeoutExpired:
        return {'rc': -2, 'output': 'timeout'}

# obligation-label prefix -> candidate inputs (vx-replay argument lists); each exits 0 on a tree where the property holds
CANDIDATES = [
    ('escape.', [['--escape-surrogates', '--no-soundness', '--expect-regex', r'^\u{dbff}\u{dfff}$', '--', r'\u{10ffff}'],
                 ['--escape-surrogates', '--no-soundness', '--expect-regex', r'^\u{d800}\u{dc00}$', '--', r'\u{10000}'],
                 ['--escape-surrogates', '--expect-regex', r'^\u{ffff}$', '--', r'\u{ffff}'],
                 ['--escape', '--expect-regex', r'^\u{10ffff}$', '--', r'\u{10ffff}'],
                 ['--escape', '--expect-regex', r'^\u{80}$', '--', r'\u{80}'],
                 ['--escape', '--expect-regex', '^~$', '--', '~']]),
    ('escape_regexp_symbols.', [['--repetitions', '--', 'aaa{2}aaa{2}xaaa{2}aaa{2}x'], ['--repetitions', '--must-not-match', 'aay..yx..y..yx', '--', '..y..yx..y..yx']]),
    ('format_literal.', [['--repetitions', '--min-rep', '2', '--', 'a{2}a{2}a{2}xa{2}a{2}a{2}xa{2}a{2}a{2}x'], ['--repetitions', '--', 'aaa{2}aaa{2}xaaa{2}aaa{2}x'], ['--repetitions', '--', 'a.a.a.']]),
    ('grapheme.has_repetitions', [['--repetitions', '--', 'a.a.a.'], ['--repetitions', '--', 'aaa{2}aaa{2}xaaa{2}aaa{2}x']]),
    ('cluster_split.', [['--', r'\\\u{1F3FB}\u{1F3FB}'], ['--', r'\u{0D4E}\u{0D4E}\\'], ['--', r'\\\u{1F3FB}'], ['--', r'\\']]),
    ('caseconv.', [['--ignore-case', '--', 'ABC', 'abc'], ['--ignore-case', '--', r'\u{130}'], ['--ignore-case', '--', 'I', r'\u{130}x']]),
    ('display.', [['--no-start-anchor', '--expect-regex', 'a$', '--', 'a'], ['--no-end-anchor', '--expect-regex', '^a', '--', 'a'],
                  ['--no-anchors', '--expect-regex', 'a', '--', 'a'], ['--expect-regex', '^a$', '--', 'a'],
                  ['--ignore-case', '--expect-regex', '(?i)^a$', '--', 'a'], ['--verbose', '--ignore-case', '--', 'a', 'b']]),
    ('classify.', [['--digits', '--expect-regex', r'^\d$', '--', '1'], ['--words', '--expect-regex', r'^\w$', '--', 'a'],
                   ['--spaces', '--expect-regex', r'^\s$', '--', ' '], ['--digits', '--words', '--expect-regex', r'^\d$', '--', '1'],
                   ['--words', '--spaces', '--non-digits', '--expect-regex', r'^\w\s\D$', '--', 'a #'],
                   ['--non-digits', '--non-words', '--expect-regex', r'^\D$', '--', '#'], ['--non-words', '--non-spaces', '--expect-regex', r'^\W$', '--', '#'],
                   ['--non-spaces', '--expect-regex', r'^\S$', '--', '#'], ['--non-digits', '--expect-regex', '^1$', '--', '1']]),
    ('rep_filter.', [['--repetitions', '--expect-regex', '^a{2}$', '--', 'aa'], ['--repetitions', '--min-rep', '2', '--expect-regex', '^aa$', '--', 'aa'],
                     ['--repetitions', '--min-rep', '2', '--expect-regex', '^a{3}$', '--', 'aaa']]),
]
HUNT_LANG = ('union.', 'concatenate.', 'remove_common_substring.', 'recreate.', 'insert.', 'return_next_state.', 'value.', 'new_', 'is_empty.', 'cluster.', 'rotate.',
             'flatten.', 'from_dfa.', 'fallback.')

HUNT_SOUND = ('find_next_state.found_covering', 'find_next_state.only_widens', 'find_next_state.frame', 'add_new_state.', 'return_next_state.', 'insert.', 'classify.', 'caseconv.', 'class_gate.', 'grapheme')

def hunt(prop, unit, label, failure, repo):
    """returns {'args': [...], 'output': str} for the first candidate that fails on the real library, else {'why': ...}."""
    if repo != '/repo':
        return {'why': 'checked tree is not /repo; the replay crate is tied to /repo'}
    if unit == 'tables':
        from units import tables
        return tables.replay_witness(repo, label)
    if unit == 'kani':
        return {'why': 'Kani trace is attached below (the look-up harness is loop-free over one symbolic char); see the log'}
    cands = []
    for pre, cs in CANDIDATES:
        if label.startswith(pre): cands += cs
    tried = 0
    for args in cands:
        r = replay_on_real_code(args)
        tried += 1
        if r['rc'] == 1: return {'args': args, 'output': r['output']}
        if r['rc'] < 0: return {'why': r['output']}
    notes = []
    searches = []
    if label.startswith(HUNT_SOUND): searches.append((['hunt-sound'], 'no set of at most 2 words of length <= 2 over {a,B,1,space} under any of the 256 conversion/case/repetition flag subsets makes the real library miss a test case'))
    elif label.startswith(HUNT_LANG): searches.append((['hunt-lang', '--ignore-kf1'], 'no set of at most 3 words over {a,b}^<=3 (with the empty word) makes the real library violate soundness/exactness'))
    if prop in ('C04', 'C06', 'C08', 'C11', 'C13', 'C15'): searches.append((['hunt-prop', prop], 'the property-level search hunt-prop %s finds no failing input' % prop))
    for args, none_msg in searches:
        r = replay_on_real_code(args, timeout=900)
        if r['rc'] == 1:
            m = re.search(r'^failing input: (.*)$', r['output'], re.M)
            if m:
                found = shlex.split(m.group(1))
                extra = replay_on_real_code(found)['output'] if args[0] == 'hunt-sound' else ''
                return {'args': found, 'output': r['output'] + extra}
        notes.append(none_msg)
    return {'why': '; '.join(notes + ['Verus gives no counterexample; %d directed candidate inputs of this obligation were replayed on the real library and none misbehaves' % tried])}
