"""Modular soundness guard: where a unit ASSUMES the contract of a function that another unit VERIFIES ("verified in unit X against exactly this
contract") and the text is not shared through a Python constant, compare the two texts on every run.
  assumed ensures  must all occur among the verified ensures   (the user may rely on no more than was proved)
  verified requires must all occur among the assumed requires  (the user must establish everything the proof needed)
A difference is reported as UNDECIDED (the composition argument no longer holds), never as a violation."""
import re
PAIRS = [  # (using unit, fn as it appears there, verifying unit, fn there, clauses of the user that are deliberately NOT compared (abstractions))
    ('stage1', 'convert_repetitions', 'repeats', 'convert_repetitions', []),
    ('format', 'to_repr', 'render', 'to_repr', []),
    ('charclass', 'to_repr', 'render', 'to_repr', []),
    ('stage1', r'from~\s*s: &str,\s*is_capturing_group_enabled', 'repeats', r'from~\s*s: &str,\s*is_capturing_group_enabled', ['r.is_capturing_group_enabled == is_capturing_group_enabled && r.is_output_colorized == is_output_colorized && r.is_verbose_mode_enabled == is_verbose_mode_enabled']),   # the flags clause: next pair
    ('stage1', r'from~\s*s: &str,\s*is_capturing_group_enabled', 'rep', r'from~\s*s: &str,\s*is_capturing_group_enabled', ['plain(r) && r.chars@[0]@ == s@']),
    ('matrix', r'new~\s*grapheme: Grapheme', 'expr', r'new~\s*grapheme: Grapheme', []),
    ('stage1', r'from~\s*s: &str,\s*config', 'clusterfrom', r'from~\s*s: &str,\s*config', ['r.graphemes@ == segments(s@, *config)', 'r.graphemes@.len() < 0x1_0000_0000']),   # a name for the result; a machine bound (fewer than 2^32 graphemes per test case)
    ('clusterfrom', r'from~\s*s: &str,\s*is_capturing_group_enabled', 'repeats', r'from~\s*s: &str,\s*is_capturing_group_enabled', ['r.is_capturing_group_enabled == is_capturing_group_enabled && r.is_output_colorized == is_output_colorized && r.is_verbose_mode_enabled == is_verbose_mode_enabled']),
    ('clusterfrom', r'from~\s*s: &str,\s*is_capturing_group_enabled', 'rep', r'from~\s*s: &str,\s*is_capturing_group_enabled', ['plain(r) && r.chars@[0]@ == s@']),
    ('stage1', 'is_char_class_feature_enabled', 'gates', 'is_char_class_feature_enabled', ['r == conversion_runs(*self)']),     # naming the answer of a pure function of the settings
]
def _norm(s): return re.sub(r'\s+', ' ', re.sub(r'/\*.*?\*/', '', s)).strip().rstrip(',').strip()
def contract(text, fn, method=True):
    """requires / ensures clause lists of `fn NAME(` (the LAST definition with &self / &mut self if method) in an assembled file;
    fn may be `NAME~REGEX`: REGEX must match the parameter list (to tell associated functions of the same name apart)"""
    out = None
    pat = None
    if '~' in fn: fn, pat = fn.split('~', 1); method = False
    for m in re.finditer(r'\bfn ' + re.escape(fn) + r'\s*(?:<[^>]*>)?\(', text):
        sig_end = text.find('{', m.end())
        head = text[m.end():sig_end]
        if method and 'self' not in head.split(')')[0]: continue
        if pat and not re.match(pat, head, re.S): continue
        req = re.search(r'\brequires\b(.*?)(?=\bensures\b|\bdecreases\b|$)', head, re.S)
        ens = re.search(r'\bensures\b(.*?)(?=\bdecreases\b|$)', head, re.S)
        split = lambda t: [x for x in (_norm(c) for c in _split_top(t)) if x]
        out = (split(req.group(1)) if req else [], split(ens.group(1)) if ens else [])
    return out
def _split_top(t):
    parts, depth, cur = [], 0, ''
    for ch in t:
        if ch in '([{': depth += 1
        elif ch in ')]}': depth -= 1
        if ch == ',' and depth == 0: parts.append(cur); cur = ''
        else: cur += ch
    parts.append(cur)
    return parts
def run(units, repo, spec_dir, only_units=None):
    """returns (checked pairs, list of problems)"""
    texts, problems, checked = {}, [], []
    for (u, f, v, g, skip) in PAIRS:
        if only_units is not None and u not in only_units and v not in only_units: continue
        try:
            for x in (u, v):
                if x not in texts: texts[x] = units[x](repo, spec_dir, canary=False).text()
        except Exception as e:
            problems.append('%s / %s: could not assemble (%r)' % (u, v, e)); continue
        cu, cv = contract(texts[u], f), contract(texts[v], g)
        if cu is None or cv is None:
            problems.append('%s:%s or %s:%s not found in the assembled files' % (u, f, v, g)); continue
        for c in cu[1]:
            if c not in cv[1] and c not in skip: problems.append('unit %s assumes of %s: `%s`, which unit %s does not verify in this form' % (u, f, c[:160], v))
        for c in cv[0]:
            if c not in cu[0]: problems.append('unit %s verifies %s under `%s`, which unit %s does not require of its callers' % (v, g, c[:160], u))
        checked.append('%s:%s = %s:%s' % (u, f, v, g))
    return checked, problems
if __name__ == '__main__':
    import sys, os
    sys.path.insert(0, os.path.dirname(os.path.dirname(os.path.abspath(__file__))))
    from units import REGISTRY
    ch, pr = run(REGISTRY, sys.argv[1] if len(sys.argv) > 1 else '/repo', os.path.join(os.path.dirname(os.path.dirname(os.path.abspath(__file__))), 'spec'))
    print('checked:', ch); print('problems:', pr)
