"""Mutation self-test: fixed list of breaking / benign edits applied to a scratch copy of the current tree."""
import os, shutil, tempfile, sys
HERE = os.path.dirname(os.path.abspath(__file__)); ROOT = os.path.dirname(HERE)
sys.path.insert(0, ROOT)
MUTANTS = [
 # (id, unit, file, old, new, expected 'fail'|'pass', expected obligation substring)
 ('union-drop-suffix', 'expr', 'expression.rs', 'if let Some(suffix) = common_suffix {', 'if let (Some(suffix), true) = (common_suffix, false) {', 'fail', 'union.'),
 ('union-wrong-optional', 'expr', 'expression.rs', 'let mut result = if expr1.is_empty() {\n                    Some(Expression::new_repetition(\n                        expr2.clone(),', 'let mut result = if expr1.is_empty() {\n                    Some(Expression::new_repetition(\n                        expr1.clone(),', 'fail', 'union.'),
 ('union-class-or', 'expr', 'expression.rs', 'result.is_none() && expr1.is_single_codepoint() && expr2.is_single_codepoint()', 'result.is_none() && (expr1.is_single_codepoint() || expr2.is_single_codepoint())', 'fail', 'union.'),
 ('concat-merge-swapped', 'expr', 'expression.rs', 'GraphemeCluster::merge(graphemes_a, graphemes_first, config)', 'GraphemeCluster::merge(graphemes_first, graphemes_a, config)', 'fail', 'concatenate.'),
 ('concat-reorder-benign', 'expr', 'expression.rs', 'let expr1 = a.as_ref().unwrap();\n        let expr2 = b.as_ref().unwrap();', 'let expr2 = b.as_ref().unwrap();\n        let expr1 = a.as_ref().unwrap();', 'pass-kf', ''),
 ('rotate-pop', 'expr', 'regexp.rs', '} else if let Expression::Alternation(options, _, _, _) = expr {\n                options.rotate_right(1);', '} else if let Expression::Alternation(options, _, _, _) = expr {\n                options.pop();', 'fail', 'rotate.'),
 ('setter-wrong-field', 'builder', 'builder.rs', 'self.config.is_word_converted = true;', 'self.config.is_non_word_converted = true;', 'fail', 'with_conversion_of_words.effect'),
 ('threshold-no-check', 'builder', 'builder.rs', 'self.config.minimum_repetitions = quantity;', 'self.config.minimum_repetitions = quantity + 1;', 'fail', 'with_minimum_repetitions'),
 ('classify-crossed', 'classify', 'cluster.rs', '} else if is_word_converted && is_word(c) {', '} else if is_word_converted && is_space(c) {', 'fail', 'classify.precedence'),
 ('classify-precedence-swapped', 'classify', 'cluster.rs', 'if is_digit_converted && is_digit(c) {\n                                "\\\\d".to_string()\n                            } else if is_word_converted && is_word(c) {\n                                "\\\\w".to_string()', 'if is_word_converted && is_word(c) {\n                                "\\\\w".to_string()\n                            } else if is_digit_converted && is_digit(c) {\n                                "\\\\d".to_string()', 'fail', 'classify.precedence'),
 ('table-off-by-one', 'tables', 'unicode_tables/word.rs', "('a', 'z'),", "('a', 'y'),", 'fail', 'tables.word'),
 ('caseconv-unconditional', 'caseconv', 'regexp.rs', 'if lower_test_case.chars().count() == it.chars().count() {', 'if lower_test_case.chars().count() >= 0 {', 'fail', 'caseconv.'),
 ('anchor-flag-crossed', 'render', 'regexp.rs', 'let caret = if self.config.is_start_anchor_disabled {', 'let caret = if self.config.is_end_anchor_disabled {', 'fail', 'display.caret'),
 ('rep-filter-nonstrict', 'rep', 'cluster.rs', 'count > config.minimum_repetitions', 'count >= config.minimum_repetitions', 'fail', 'rep_filter.strict'),
 ('recreate-no-second-mark', 'dfa', 'dfa.rs', 'if self.final_state_indices.contains(&old_target_state.index()) {\n                    final_state_indices.insert(new_target_state.index());\n                }', '', 'fail', 'recreate'),
 ('recreate-edge-swapped', 'dfa', 'dfa.rs', 'graph.add_edge(*new_source_state, *new_target_state, grapheme.clone());', 'graph.add_edge(*new_target_state, *new_source_state, grapheme.clone());', 'fail', 'recreate'),
 ('insert-no-final', 'trie', 'dfa.rs', 'self.final_state_indices.insert(current_state.index());\n    }', 'let _ = current_state.index();\n    }', 'fail', 'insert'),
 ('cli-dropped-flag', 'cli', 'main.rs', 'if cli.is_non_word_converted {\n                    builder.with_conversion_of_non_words();\n                }', '', 'fail', 'cli.'),
 ('cli-crossed-flag', 'cli', 'main.rs', 'if cli.is_space_converted {\n                    builder.with_conversion_of_whitespace();', 'if cli.is_space_converted {\n                    builder.with_conversion_of_non_whitespace();', 'fail', 'cli.'),
 ('elim-concat-swapped', 'elim', 'expression.rs', '&Self::concatenate(&a[(i, n)], &a[(n, j)], config),', '&Self::concatenate(&a[(n, j)], &a[(i, n)], config),', 'fail', 'elim.'),
 ('elim-wrong-final-vector', 'elim', 'expression.rs', '&Self::concatenate(&a[(i, n)], &b[n], config), config);', '&Self::concatenate(&a[(i, n)], &b[i], config), config);', 'fail', 'elim.'),
 ('elim-skips-row-zero', 'elim', 'expression.rs', 'for i in 0..n {\n                if a[(i, n)].is_some() {', 'for i in 1..n {\n                if a[(i, n)].is_some() {', 'fail', 'elim.'),
 ('elim-result-from-last-state', 'elim', 'expression.rs', 'if !b.is_empty() && b[0].is_some() {\n            b[0].as_ref().unwrap().clone()', 'if !b.is_empty() && b[state_count - 1].is_some() {\n            b[state_count - 1].as_ref().unwrap().clone()', 'fail', 'elim.'),
 ('elim-union-operands-swapped-benign', 'elim', 'expression.rs', 'b[i] =\n                        Self::union(&b[i], &Self::concatenate(&a[(i, n)], &b[n], config), config);', 'b[i] =\n                        Self::union(&Self::concatenate(&a[(i, n)], &b[n], config), &b[i], config);', 'pass', ''),
 ('find-next-ignores-max', 'trie', 'dfa.rs', '} else if current_grapheme.maximum() == grapheme.maximum() {', '} else if current_grapheme.maximum() >= grapheme.maximum() {', 'fail', 'find_next_state.'),
 ('merged-label-flag-order', 'trie', 'dfa.rs', '                    self.config.is_capturing_group_enabled,\n                    self.config.is_output_colorized,\n                    self.config.is_verbose_mode_enabled,', '                    self.config.is_verbose_mode_enabled,\n                    self.config.is_output_colorized,\n                    self.config.is_capturing_group_enabled,', 'fail', 'find_next_state.relabel_keeps_config_flags'),
 ('grapheme-new-flag-swap', 'trie', 'grapheme.rs', '            max,\n            is_capturing_group_enabled,\n            is_output_colorized,', '            max,\n            is_capturing_group_enabled: is_verbose_mode_enabled,\n            is_output_colorized,', 'fail', 'grapheme.new_flags'),
 ('nested-escape-recursion-removed', 'nested', 'grapheme.rs', '        for repetition in self.repetitions.iter_mut() {\n            repetition.escape_regexp_symbols(\n                is_non_ascii_char_escaped,\n                is_astral_code_point_converted_to_surrogate,\n            );\n        }\n', '', 'fail', 'escape_regexp_symbols.nested_repetitions_escaped'),
 ('nested-escape-flags-swapped', 'nested', 'grapheme.rs', '            repetition.escape_regexp_symbols(\n                is_non_ascii_char_escaped,\n                is_astral_code_point_converted_to_surrogate,', '            repetition.escape_regexp_symbols(\n                is_astral_code_point_converted_to_surrogate,\n                is_non_ascii_char_escaped,', 'fail', 'escaped_below'),
 ('literal-nested-filter-unrepeated', 'nested', 'format.rs', '                    .iter_mut()\n                    .for_each(|repeated_grapheme| {', '                    .iter_mut()\n                    .filter(|repeated_grapheme| repeated_grapheme.maximum() == 1)\n                    .for_each(|repeated_grapheme| {', 'fail', 'format_literal.'),
 ('literal-branches-swapped', 'nested', 'format.rs', 'if grapheme.has_repetitions() {\n                grapheme\n                    .repetitions_mut()', 'if !grapheme.has_repetitions() {\n                grapheme\n                    .repetitions_mut()', 'fail', 'format_literal.'),
 ('benign-nested-loop-as-for-each', 'nested', 'grapheme.rs', '        for repetition in self.repetitions.iter_mut() {\n            repetition.escape_regexp_symbols(\n                is_non_ascii_char_escaped,\n                is_astral_code_point_converted_to_surrogate,\n            );\n        }\n', '        self.repetitions.iter_mut().for_each(|repetition| {\n            repetition.escape_regexp_symbols(\n                is_non_ascii_char_escaped,\n                is_astral_code_point_converted_to_surrogate,\n            );\n        });\n', 'pass', ''),
 ('reuse-edge-on-equal-minimum', 'trie', 'dfa.rs', '} else if current_grapheme.maximum() == grapheme.maximum() {', '} else if current_grapheme.maximum() == grapheme.maximum() || current_grapheme.minimum() == grapheme.minimum() {', 'fail', 'find_next_state.reuse_scope'),
 ('edge-compare-first-grapheme', 'trie', 'dfa.rs', 'if current_grapheme.value() != grapheme.value() {', 'if current_grapheme.chars().first() != grapheme.chars().first() {', 'undecided-or-fail', 'find_next_state.'),
 ('minimize-block-not-removed', 'minimize', 'dfa.rs', '                        p.remove(start_idx);\n', '', 'fail', 'minimize.'),
 ('minimize-difference-reversed', 'minimize', 'dfa.rs', 'let d = y.difference(&x).copied()', 'let d = x.difference(y).copied()', 'fail', 'minimize.'),
 ('minimize-second-half-dropped', 'minimize', 'dfa.rs', '                        p.insert(start_idx + 1, d.clone());\n', '', 'fail', 'minimize.'),
 ('minimize-worklist-pop-unchecked', 'minimize', 'dfa.rs', 'while !w.is_empty() {', 'while w.len() != 1 {', 'fail', 'Dfa::minimize.safety'),
 ('minimize-insert-past-end', 'minimize', 'dfa.rs', 'p.insert(start_idx + 1, d.clone());', 'p.insert(start_idx + 2, d.clone());', 'fail', 'minimize'),
 ('parent-states-edge-reversed', 'minimize', 'dfa.rs', 'let edge = self.graph.find_edge(parent_state, state).unwrap();\n                let grapheme', 'let edge = self.graph.find_edge(state, parent_state).unwrap();\n                let grapheme', 'fail', 'Dfa::get_parent_states.safety'),
 ('parent-states-outgoing', 'minimize', 'dfa.rs', 'self.graph.neighbors_directed(state, Direction::Incoming);', 'self.graph.neighbors_directed(state, Direction::Outgoing);', 'fail', 'get_parent_states'),
 ('benign-minimize-halves-swapped', 'minimize', 'dfa.rs', '                        p.insert(start_idx, i.clone());\n                        p.insert(start_idx + 1, d.clone());', '                        p.insert(start_idx, d.clone());\n                        p.insert(start_idx + 1, i.clone());', 'pass', ''),
 ('benign-minimize-push-larger-half', 'minimize', 'dfa.rs', '} else if i.len() <= d.len() {', '} else if i.len() >= d.len() {', 'pass', ''),
 ('python-short-escapes-unmatched', 'python', 'python.rs', '([0-9a-f]{1,4})', '([0-9a-f]{4})', 'fail', 'python.every_escape_length_is_rewritten'),
 ('python-six-digit-unmatched', 'python', 'python.rs', '([0-9a-f]{5,6})', '([0-9a-f]{5})', 'fail', 'python.every_escape_length_is_rewritten'),
 ('python-astral-pad-fixed-zeros', 'python', 'python.rs', 'format!("\\\\U{:0>8}", &caps[1])', 'format!("\\\\U000{}", &caps[1])', 'fail', 'python.every_escape_length_is_rewritten'),
 ('python-bmp-written-as-astral', 'python', 'python.rs', 'format!("\\\\u{:0>4}", &caps[1])', 'format!("\\\\U{:0>8}", &caps[1])', 'fail', 'python.every_escape_length_is_rewritten'),
 ('benign-python-one-to-four-then-rest', 'python', 'python.rs', '([0-9a-f]{5,6})', '([0-9a-f]{5,8})', 'pass', ''),
 ('cli-stdin-lines-unwrapped-ok', 'cli', 'main.rs', '                stdin()\n                    .lock()\n                    .lines()\n                    .collect::<Result<Vec<String>, Error>>()\n', '                Ok(stdin()\n                    .lock()\n                    .lines()\n                    .map(|line| line.unwrap())\n                    .collect_vec())\n', 'fail', 'obtain_input_stdin.safety'),
 ('cli-stdin-lines-expect', 'cli', 'main.rs', '                stdin()\n                    .lock()\n                    .lines()\n                    .collect::<Result<Vec<String>, Error>>()\n', '                Ok(stdin()\n                    .lock()\n                    .lines()\n                    .map(|line| line.expect("valid UTF-8"))\n                    .collect_vec())\n', 'fail', 'obtain_input_stdin.safety'),
 ('representative-by-hash-order', 'dfa', 'dfa.rs', 'let old_source_state = *equivalence_class.iter().min().unwrap();', 'let old_source_state = *equivalence_class.iter().next().unwrap();', 'fail', 'recreate.representative_independent_of_hash_order'),
 ('benign-representative-is-greatest', 'dfa', 'dfa.rs', 'let old_source_state = *equivalence_class.iter().min().unwrap();', 'let old_source_state = *equivalence_class.iter().max().unwrap();', 'pass', ''),
 ('indent-decides-on-raw-line', 'indent', 'regexp.rs', 'let plain_line = color_replace_regex.replace_all(line, "");', 'let plain_line = line.to_string();', 'fail', 'indent.'),
 ('indent-close-by-contains', 'indent', 'regexp.rs', "(plain_line == \"$\" || plain_line.starts_with(')'))", "(plain_line == \"$\" || plain_line.contains(')'))", 'fail', 'indent.close_decided_by_the_line_without_colour'),
 ('indent-open-ignores-first-line-guard', 'indent', 'regexp.rs', "(i > 0 && plain_line.starts_with('('))", "plain_line.starts_with('(')", 'fail', 'indent.open_decided_by_the_line_without_colour'),
 ('benign-indent-disjuncts-swapped', 'indent', 'regexp.rs', "(plain_line == \"$\" || plain_line.starts_with(')'))", "(plain_line.starts_with(')') || plain_line == \"$\")", 'pass', ''),
 ('from-file-accepts-empty-file', 'builder', 'builder.rs', '                if test_cases.is_empty() {\n                    panic!("{}", MISSING_TEST_CASES_MESSAGE);\n                }\n', '', 'fail', 'from_file.no_test_cases_is_the_documented_panic'),
 ('from-file-drops-first-line', 'builder', 'builder.rs', '                Self {\n                    test_cases,\n                    config: RegExpConfig::new(),', '                Self {\n                    test_cases: test_cases[1..].to_vec(),\n                    config: RegExpConfig::new(),', 'undecided-or-fail', 'from_file'),
 ('len-concatenation-drops-second', 'expr', 'expression.rs', 'Expression::Concatenation(expr1, expr2, _, _, _) => expr1.len() + expr2.len(),', 'Expression::Concatenation(expr1, expr2, _, _, _) => expr1.len(),', 'fail', 'len.matched_length_composed'),
 ('add-new-state-edge-reversed', 'trie', 'dfa.rs', '.add_edge(current_state, next_state, edge_label.clone());', '.add_edge(next_state, current_state, edge_label.clone());', 'fail', 'add_new_state.'),
 ('insert-marks-start', 'trie', 'dfa.rs', 'self.final_state_indices.insert(current_state.index());\n    }', 'self.final_state_indices.insert(self.initial_state.index());\n    }', 'fail', 'insert.'),
 ('pipeline-sort-before-lowercase', 'regexp', 'regexp.rs', '        if config.is_case_insensitive_matching {\n            Self::convert_for_case_insensitive_matching(test_cases);\n        }\n        Self::sort(test_cases);', '        Self::sort(test_cases);\n        if config.is_case_insensitive_matching {\n            Self::convert_for_case_insensitive_matching(test_cases);\n        }', 'fail', 'pipeline.input_prepared'),
 ('pipeline-fallback-drops-cluster', 'regexp', 'regexp.rs', '                        exprs.push(literal);', '                        if exprs.len() < 3 { exprs.push(literal); }', 'fail', 'pipeline.'),
 ('pipeline-ast-from-other-clusters', 'regexp', 'regexp.rs', 'let mut dfa = Dfa::from(&grapheme_clusters, true, config);', 'let mut dfa = Dfa::from(&grapheme_clusters[1..], true, config);', 'fail', ''),
 ('render-ixflag-loses-i', 'render', 'component.rs', 'Component::IgnoreCaseAndVerboseModeFlag => "(?ix)\\n".to_string(),', 'Component::IgnoreCaseAndVerboseModeFlag => "(?x)\\n".to_string(),', 'fail', 'render.component_plain'),
 ('render-colored-ixflag-loses-i', 'render', 'component.rs', 'format!("{}\\n", Self::bright_yellow_on_black("(?ix)", is_escaped))', 'format!("{}\\n", Self::bright_yellow_on_black("(?x)", is_escaped))', 'fail', 'render.colored_adds_only_colour'),
 ('render-colour-changed-benign', 'render', 'component.rs', 'Self::color_code("1;32", value, is_escaped)', 'Self::color_code("1;34", value, is_escaped)', 'pass', ''),
 ('render-uncaptured-group-captures', 'render', 'component.rs', 'Component::UncapturedLeftParenthesis => "(?:".to_string(),', 'Component::UncapturedLeftParenthesis => "(".to_string(),', 'fail', 'render.'),
 ('render-repetition-range-swapped', 'render', 'component.rs', 'format!("{{{},{}}}", min, max)', 'format!("{{{},{}}}", max, min)', 'fail', 'render.component_plain'),
 ('display-outer-group-kind', 'render', 'regexp.rs', '                    if self.config.is_capturing_group_enabled {\n                        Component::CapturedParenthesizedExpression(\n                            self.ast.to_string(),', '                    if !self.config.is_capturing_group_enabled {\n                        Component::CapturedParenthesizedExpression(\n                            self.ast.to_string(),', 'fail', 'display.assemble'),
 ('display-dollar-before-body', 'render', 'regexp.rs', 'format!("{}{}{}{}", flag, caret, self.ast, dollar_sign)', 'format!("{}{}{}{}", flag, caret, dollar_sign, self.ast)', 'fail', 'display.assemble'),
 ('format-alt-precedence-nonstrict', 'format', 'format.rs', 'if option.precedence() < expr.precedence() && !option.is_single_codepoint() {', 'if option.precedence() <= expr.precedence() && !option.is_single_codepoint() {', 'fail', 'format.alternation_operand'),
 ('format-concat-group-kind-flipped', 'format', 'format.rs', '            if it.precedence() < expr.precedence() && !it.is_single_codepoint() {\n                if is_capturing_group_enabled {', '            if it.precedence() < expr.precedence() && !it.is_single_codepoint() {\n                if !is_capturing_group_enabled {', 'fail', 'format.concatenation_operand'),
 ('format-repetition-never-groups', 'format', 'format.rs', 'if expr1.precedence() < expr.precedence() && !expr1.is_single_codepoint() {', 'if expr1.precedence() < expr.precedence() && expr1.is_single_codepoint() {', 'fail', 'format.repetition'),
 ('format-class-caret-unescaped', 'format', 'format.rs', "let chars_to_escape = ['[', ']', '\\\\', '-', '^', '$'];", "let chars_to_escape = ['[', ']', '\\\\', '-'];", 'fail', 'format.class_meta_escaped'),
 ('format-class-dollar-unescaped-benign', 'format', 'format.rs', "let chars_to_escape = ['[', ']', '\\\\', '-', '^', '$'];", "let chars_to_escape = ['[', ']', '\\\\', '-', '^'];", 'pass', ''),
 ('format-literal-flags-swapped', 'format', 'format.rs', '                        repeated_grapheme.escape_regexp_symbols(\n                            is_non_ascii_char_escaped,\n                            is_astral_code_point_converted_to_surrogate,', '                        repeated_grapheme.escape_regexp_symbols(\n                            is_astral_code_point_converted_to_surrogate,\n                            is_non_ascii_char_escaped,', 'fail', 'format.literal_nested_escape_flags'),
 ('selfcheck-accepts-no-match', 'format', 'regexp.rs', '.all(|test_case| regex.find_iter(test_case).count() == 1)', '.all(|test_case| regex.find_iter(test_case).count() <= 1)', 'fail', 'selfcheck.exactly_one_match'),
 ('grapheme-single-char-by-entry-count', 'render', 'grapheme.rs', 'let is_single_char = self.char_count(false) == 1\n            || (self.chars.len() == 1 && self.chars[0].matches(\'\\\\\').count() == 1);', 'let is_single_char = self.chars.len() == 1 && self.chars[0].matches(\'\\\\\').count() <= 1;', 'fail', 'render.grapheme_plain'),
 ('grapheme-group-kind-flipped', 'render', 'grapheme.rs', '        } else if is_range && !is_single_char {\n            write!(\n                f,\n                "{}{}",\n                if self.is_capturing_group_enabled {', '        } else if is_range && !is_single_char {\n            write!(\n                f,\n                "{}{}",\n                if !self.is_capturing_group_enabled {', 'fail', 'render.grapheme_plain'),
 ('python-wrong-field', 'python', 'python.rs', 'self_.config.is_space_converted = true;', 'self_.config.is_non_space_converted = true;', 'fail', 'python.py_with_conversion_of_whitespace.effect'),
 ('python-threshold-accepts-zero', 'python', 'python.rs', 'if quantity <= 0 {', 'if quantity < 0 {', 'fail', 'python.py_with_minimum_repetitions'),
 ('python-build-always-rewrites', 'python', 'python.rs', 'if self.config.is_non_ascii_char_escaped {\n            replace_unicode_escape_sequences(regexp)', 'if !self.config.is_verbose_mode_enabled {\n            replace_unicode_escape_sequences(regexp)', 'fail', 'python.build.delegates'),
 ('fcs-suffix-reverses-one-side', 'expr', 'expression.rs', '            graphemes_a.reverse();\n            graphemes_b.reverse();', '            graphemes_a.reverse();', 'fail', 'find_common_substring.'),
 ('fcs-continues-after-mismatch', 'expr', 'expression.rs', '                    } else {\n                        break;\n                    }\n                }\n                _ => break,', '                    }\n                }\n                _ => break,', 'fail', 'find_common_substring.'),
 ('remove-substring-off-by-one', 'expr', 'expression.rs', '                    if let Expression::Literal(_, _, _) = **expr1 {\n                        expr1.remove_substring(substring, length)', '                    if let Expression::Literal(_, _, _) = **expr1 {\n                        expr1.remove_substring(substring, length - 1)', 'fail', 'remove_substring'),
 ('flatten-drops-nested-options', 'expr', 'expression.rs', '                Self::flatten_alternations(flattened_options, expr_options);', '                let _ = expr_options;', 'fail', 'flatten.lang'),
 ('matrix-final-vector-inverted', 'matrix', 'expression.rs', 'if dfa.is_final_state(*state) {', 'if !dfa.is_final_state(*state) {', 'fail', 'matrix.'),
 ('matrix-transposed', 'matrix', 'expression.rs', 'a[(i, j)] = if a[(i, j)].is_some() {\n                    Self::union(&a[(i, j)], &Some(literal), config)', 'a[(j, i)] = if a[(j, i)].is_some() {\n                    Self::union(&a[(j, i)], &Some(literal), config)', 'fail', 'matrix.'),
 ('dfa-from-skips-first-cluster', 'trie', 'dfa.rs', '        for cluster in grapheme_clusters {\n            dfa.insert(cluster);', '        for cluster in &grapheme_clusters[1..] {\n            dfa.insert(cluster);', 'fail', ''),
 ('dfa-new-initial-state-final', 'trie', 'dfa.rs', '            final_state_indices: HashSet::new(),\n            config,\n        }\n    }\n\n    fn insert', '            final_state_indices: HashSet::from([0]),\n            config,\n        }\n    }\n\n    fn insert', 'fail', ''),
 ('splice-guard-inverted', 'splice', 'cluster.rs', 'if substr.len() < config.minimum_substring_length as usize {', 'if substr.len() > config.minimum_substring_length as usize {', 'fail', 'splice.units_respect_minimum_length'),
 ('splice-range-count', 'splice', 'cluster.rs', '                substr.clone(),\n                count,\n                count,', '                substr.clone(),\n                1,\n                count,', 'fail', 'splice.units_respect_minimum_length'),
 ('verbose-hash-not-escaped', 'render', 'regexp.rs', "            regexp = regexp.replace('#', \"\\\\#\");\n", '', 'fail', 'verbose.'),
 ('verbose-replace-order-benign', 'render', 'regexp.rs', ".replace('\\u{b}', \"\\\\v\") // U+000B Line Tabulation\n            .replace('\\u{c}', \"\\\\f\"); // U+000C Form Feed", ".replace('\\u{c}', \"\\\\f\") // U+000C Form Feed\n            .replace('\\u{b}', \"\\\\v\"); // U+000B Line Tabulation", 'pass', ''),
 ('verbose-space-before-hash-benign', 'render', 'regexp.rs', "            regexp = regexp.replace('#', \"\\\\#\");\n", "            regexp = regexp.replace(' ', \"\\\\ \").replace('#', \"\\\\#\");\n", 'fail', 'verbose.'),
 ('verbose-whitespace-as-class-again', 'render', 'regexp.rs', 'regexp = regexp.replace(whitespace, &format!("\\\\u{:04x}", whitespace as u32));', 'regexp = regexp.replace(whitespace, "\\\\s");', 'undecided-or-fail', 'verbose.'),
 ('verbose-vt-in-whitespace-list', 'render', 'regexp.rs', "'\\u{2029}', '\\u{202f}', '\\u{205f}', '\\u{3000}',", "'\\u{2029}', '\\u{202f}', '\\u{205f}', '\\u{3000}', '\\u{b}',", 'fail', 'verbose.'),
 ('len-class-counts-zero', 'expr', 'expression.rs', 'Expression::CharacterClass(_, _) => 1,\n            Expression::Concatenation(expr1, expr2, _, _, _) => expr1.len() + expr2.len(),', 'Expression::CharacterClass(_, _) => 0,\n            Expression::Concatenation(expr1, expr2, _, _, _) => expr1.len() + expr2.len(),', 'fail', 'len.word_length'),
 ('benign-escaper-chain-reordered', 'escaper', 'grapheme.rs', ".replace('\\n', \"\\\\n\")\n                .replace('\\r', \"\\\\r\")", ".replace('\\r', \"\\\\r\")\n                .replace('\\n', \"\\\\n\")", 'pass', ''),
 ('escaper-duplicate-in-list', 'escaper', 'grapheme.rs', '"|", "^", "$",\n];', '"|", "^", "(",\n];', 'fail', 'escaper.list_facts'),
 ('escaper-letter-in-list', 'escaper', 'grapheme.rs', '"+", "*", "-", ".",', '"+", "*", "d", ".",', 'fail', 'escaper.list_facts'),
 ('escaper-chain-touches-space', 'escaper', 'grapheme.rs', ".replace('\\t', \"\\\\t\");", ".replace('\\t', \"\\\\t\")\n                .replace(' ', \"\\\\s\");", 'fail', 'escaper.control_chain_is_pointwise'),
 ('escaper-chain-touches-dot', 'escaper', 'grapheme.rs', ".replace('\\t', \"\\\\t\");", ".replace('\\t', \"\\\\t\")\n                .replace('.', \"\\\\.\");", 'fail', 'escaper.list_facts'),
 ('escaper-lone-backslash-not-doubled', 'escaper', 'grapheme.rs', '            if character == "\\\\" {\n                character = "\\\\\\\\".to_string();\n            }\n', '', 'fail', 'escaper.whole_text_escaped'),
 ('escaper-rounds-skip-first', 'escaper', 'grapheme.rs', 'for char_to_escape in CHARS_TO_ESCAPE.iter() {', 'for char_to_escape in CHARS_TO_ESCAPE.iter().skip(1) {', 'undecided-or-fail', 'escaper.'),
 ('escaper-dot-not-listed', 'escaper', 'grapheme.rs', 'const CHARS_TO_ESCAPE: [&str; 14] = [\n    "(", ")", "[", "]", "{", "}", "+", "*", "-", ".", "?", "|", "^", "$",\n];', 'const CHARS_TO_ESCAPE: [&str; 13] = [\n    "(", ")", "[", "]", "{", "}", "+", "*", "-", "?", "|", "^", "$",\n];', 'fail', 'escaper.every_metacharacter_is_listed'),
 ('escaper-backslash-after-character', 'escaper', 'grapheme.rs', 'character.replace(char_to_escape, &format!("{}{}", "\\\\", char_to_escape));', 'character.replace(char_to_escape, &format!("{}{}", char_to_escape, "\\\\"));', 'fail', 'escaper.round_prefixes_backslash'),
 ('escaper-tab-written-as-newline', 'escaper', 'grapheme.rs', ".replace('\\t', \"\\\\t\");", ".replace('\\t', \"\\\\n\");", 'fail', 'escaper.controls_single'),
 ('benign-concat-none-check-swapped', 'expr', 'expression.rs', 'if a.is_none() || b.is_none() {\n            return None;', 'if b.is_none() || a.is_none() {\n            return None;', 'pass-kf', ''),
 ('benign-display-caret-branches-swapped', 'render', 'regexp.rs', '        let caret = if self.config.is_start_anchor_disabled {\n            String::new()\n        } else {\n            Component::Caret(self.config.is_verbose_mode_enabled)\n                .to_repr(self.config.is_output_colorized)\n        };', '        let caret = if !self.config.is_start_anchor_disabled {\n            Component::Caret(self.config.is_verbose_mode_enabled)\n                .to_repr(self.config.is_output_colorized)\n        } else {\n            String::new()\n        };', 'pass', ''),
 ('benign-escape-condition-order', 'escape', 'grapheme.rs', "} else if use_surrogate_pairs && ('\\u{10000}'..='\\u{10ffff}').contains(&c) {", "} else if ('\\u{10000}'..='\\u{10ffff}').contains(&c) && use_surrogate_pairs {", 'pass', ''),
 ('benign-split-rule-operands-swapped', 'split', 'cluster.rs', "let contains_backslash = it.chars().count() >= 2 && it.contains('\\\\');", "let contains_backslash = it.contains('\\\\') && it.chars().count() >= 2;", 'pass', ''),
 ('benign-cli-flag-statements-reordered', 'cli', 'main.rs', '                if cli.is_digit_converted {\n                    builder.with_conversion_of_digits();\n                }\n\n                if cli.is_non_digit_converted {\n                    builder.with_conversion_of_non_digits();\n                }', '                if cli.is_non_digit_converted {\n                    builder.with_conversion_of_non_digits();\n                }\n\n                if cli.is_digit_converted {\n                    builder.with_conversion_of_digits();\n                }', 'pass', ''),
 ('benign-component-arms-reordered', 'render', 'component.rs', '                Component::Hyphen => "-".to_string(),\n                Component::IgnoreCaseFlag => "(?i)".to_string(),', '                Component::IgnoreCaseFlag => "(?i)".to_string(),\n                Component::Hyphen => "-".to_string(),', 'pass', ''),
 ('benign-find-next-state-max-compared-first', 'trie', 'dfa.rs', '            } else if current_grapheme.maximum() == grapheme.maximum() {', '            } else if grapheme.maximum() == current_grapheme.maximum() {', 'pass-kf', ''),
 ('benign-elim-inner-loops-index-renamed', 'elim', 'expression.rs', '                    for j in 0..n {\n                        a[(i, j)] = Self::union(\n                            &a[(i, j)],\n                            &Self::concatenate(&a[(i, n)], &a[(n, j)], config),', '                    for k in 0..n {\n                        a[(i, k)] = Self::union(\n                            &a[(i, k)],\n                            &Self::concatenate(&a[(i, n)], &a[(n, k)], config),', 'not-fail', ''),
 ('single-codepoint-uses-minimum', 'expr', 'expression.rs', '&& cluster.graphemes().first().unwrap().maximum() == 1', '&& cluster.graphemes().first().unwrap().minimum() == 1', 'undecided-or-fail', 'is_single_codepoint'),
 ('single-codepoint-ignores-count', 'expr', 'expression.rs', 'cluster.char_count(*is_non_ascii_char_escaped) == 1\n                    && cluster.graphemes().first().unwrap().maximum() == 1', 'cluster.char_count(*is_non_ascii_char_escaped) >= 1\n                    && cluster.graphemes().first().unwrap().maximum() == 1', 'fail', 'is_single_codepoint'),
 ('character-class-drops-second-set', 'expr', 'expression.rs', 'let union_set = first_char_set.union(&second_char_set).copied().collect();', 'let union_set = first_char_set.union(&first_char_set).copied().collect();', 'undecided-or-fail', 'new_character_class'),
 ('wasm-wrong-field', 'wasm', 'wasm.rs', 'self.builder.config.is_start_anchor_disabled = true;\n        self.clone()', 'self.builder.config.is_end_anchor_disabled = true;\n        self.clone()', 'fail', 'wasm.withoutStartAnchor'),
]
def _one(repo, m):
    from vx import run as R
    (mid, unit, f, old, new, expect, obl) = m
    src = open(os.path.join(repo, 'src', f)).read()
    if old not in src: return {'mutant': mid, 'result': 'skipped (anchor not in current tree)'}
    tmp = tempfile.mkdtemp(prefix='vxmut_')
    try:
        shutil.copytree(os.path.join(repo, 'src'), os.path.join(tmp, 'src'))
        shutil.copy(os.path.join(repo, 'Cargo.lock'), tmp)
        open(os.path.join(tmp, 'src', f), 'w').write(src.replace(old, new, 1))
        bd = os.path.join(tmp, 'build'); os.makedirs(bd)
        r = R.run_unit(unit, tmp, os.path.join(ROOT, 'spec'), bd)
        fails = [x['obligation'][1] for x in r.get('failures', []) if x['obligation']]
        kf_labels = set()
        for ln in open(os.path.join(ROOT, 'known_findings.txt')):
            if ln.startswith('finding:') and ('unit=%s ' % unit) in ln:
                mm = __import__('re').search(r'obligation=(\S+)', ln)
                if mm: kf_labels.add(mm.group(1))
        ok = (expect == 'fail' and r['status'] in ('failed', 'undecided') and any(obl in x for x in fails)) or (expect == 'pass' and r['status'] == 'verified') \
             or (expect == 'undecided-or-fail' and (r['status'] == 'undecided' or (r['status'] == 'failed' and any(obl in x for x in fails)))) \
             or (expect == 'not-fail' and r['status'] in ('verified', 'undecided') and not fails) \
             or (expect == 'pass-kf' and r['status'] in ('verified', 'failed') and set(fails) <= kf_labels)
        return {'mutant': mid, 'unit': unit, 'expected': expect, 'status': r['status'], 'failed_obligations': sorted(set(fails))[:4], 'as_expected': ok}
    finally:
        shutil.rmtree(tmp, ignore_errors=True)

def run(repo, only=None, units=None):
    """applies every listed edit to a scratch copy of the CURRENT tree (one at a time) and verifies the unit it belongs to"""
    import concurrent.futures as cf
    todo = [m for m in MUTANTS if (not only or m[0] in only) and (units is None or m[1] in units)]
    with cf.ThreadPoolExecutor(max_workers=6) as ex:
        return list(ex.map(lambda m: _one(repo, m), todo))

if __name__ == '__main__':
    import json
    res = run(sys.argv[1] if len(sys.argv) > 1 else '/repo')
    for r in res: print(json.dumps(r))
    print('as expected: %d / %d' % (sum(1 for r in res if r.get('as_expected')), len(res)))
