#!/usr/bin/env python3
"""Generates /verif/MANIFEST.json from the table below (so that it is always valid against the schema)."""
import json, os, sys
HERE = os.path.dirname(os.path.abspath(__file__)); ROOT = os.path.dirname(HERE)
sys.path.insert(0, ROOT)
from units import PROP_UNITS

T = 'contract-based deductive verification: Verus (Z3) discharges requires/ensures/invariant obligations on functions, closure bodies and statement ranges extracted verbatim from /repo/src on every run'
CLAIMS = {
 'C01': ('sections 3, 4 (C01), 5 (KF1)', 'For all inputs: union/concatenate never lose a word; the elimination loop of Expression::from returns the right language of the start state for every solution of the equation system; RegExp::from composes the stages (incl. rotation and the fallback alternation); Dfa::insert creates an accepting path for the inserted word and only ever widens labels; case conversion keeps the code-point count; every cluster containing a backslash is split; Display for Grapheme quantifies a whole unit; recreate_graph keeps accepting states (fails on the unchanged tree: KNOWN-FINDING KF1, replayed on the real library each run).', 'The Hopcroft refinement loop, the first (matrix-building) loop of Expression::from, cluster segmentation, the escaper (String::replace chains) and the regex crate parser are assumed stage contracts.'),
 'C02': ('sections 3, 4 (C02)', 'For all expression trees: union, concatenate, remove_common_substring are language-exact; the Brzozowski elimination loop is exact for every acyclic system; RegExp::from yields exactly words(clusters) given the stage contracts; recreate_graph creates no new accepting state; operands are parenthesised iff they bind weaker (alternation, concatenation, repetition sites); class metacharacters [ ] \\ - ^ are escaped.', 'Assumed contracts of find_common_substring, remove_substring, new_alternation, new_character_class, is_single_codepoint; Hopcroft merging; range building in format_character_class; anchors as parsed by the regex crate.'),
 'C03': ('section 4 (C03)', 'The per-code-point conversion chain equals the documented precedence for every scalar value and all 64 flag subsets; the flag reads and the gate that calls the conversion; a trie edge is reused only for a label with the same text (class tokens are never conflated).', 'map/join plumbing around the closure; is_digit/is_word/is_space equal the tables (discharged under C09).'),
 'C04': ('section 4 (C04)', 'Lower-casing happens exactly when the code-point count is preserved and before sorting; the (?i)/(?ix)/(?x) flag text is chosen and rendered correctly, plain and coloured, for all configurations.', 'std to_lowercase vs the regex crate folding tables (known to differ for letters cased after Unicode 15) is not decidable here.'),
 'C05': ('section 4 (C05), 5 (KF2)', 'Trie insertion never relabels an edge and reuses an edge only for the same (text, min, max) label (fails on the unchanged tree at the range-merging exit: KNOWN-FINDING KF2, replayed); Display for Grapheme prints {n}/{m,n} after a single atom or a group around the whole unit; conversion runs only on request.', 'Detection and splicing of repeated substrings (convert_repetitions and helpers) and get_parent_states are outside the verifiable subset and NOT decided.'),
 'C06': ('section 4 (C06)', 'At every parenthesisation site (alternation/concatenation/repetition operands, quantified graphemes, the outer group) the group is capturing iff requested; the verbose flag text; escape flags are passed in the right order.', 'Verbose-mode rewriting of #, spaces and other whitespace (String::replace), \\u{..} rendering and indentation are NOT decided.'),
 'C07': ('section 4 (C07)', 'No unwrap-on-None, out-of-range index (incl. the ndarray accesses of the elimination loop), overflow or violated callee precondition in any function under contract; threshold panics unreachable for positive arguments; CLI parser rejects 0; backslash split rule; class metacharacters escaped.', 'Self-check unwraps (Regex::new is assumed Ok), drain/splice ranges in cluster.rs, the String::replace chains of the escaper, petgraph unwraps in minimize.'),
 'C08': ('section 4 (C08)', '^ / $ are emitted iff the anchor is not disabled and placed first/last around the body (all configurations, plain and coloured); the self-check accepts only exactly one match per test case; rotation keeps the language; the fallback alternation denotes exactly the test cases.', 'Leftmost-first search semantics of the regex crate and the length ordering of alternatives are not decided.'),
 'C09': ('section 4 (C09)', 'The three grex tables equal the regex-syntax Perl tables as sets of scalar values (Verus, all 1,112,064 values; z3 witness replayed on failure); is_digit and is_space look-ups equal table membership for every char (Kani, complete: loops bounded by the constant table length, unwinding assertions on); is_word look-up in the thorough tier (37 min, 24 GB).', 'regex-syntax builds \\d \\s \\w from exactly those tables; in the quick tier is_word(c) <=> c in WORD is an assumption.'),
 'C10': ('sections 3.3, 4 (C10)', 'All pairs of setters commute, boolean setters are idempotent, last value wins: the config is a function of the call set; RegExp::from lower-cases before it sorts and sorts exactly once; default config.', 'HashSet iteration order under per-process seeds (observed to leak into the output with class conversion), threads and separate processes are outside the reach of the installed verifiers and are NOT decided.'),
 'C11': ('section 4 (C11), 5 (F1)', 'Grapheme::escape: ASCII passthrough; surrogates iff requested and U+10000 <= c <= U+10FFFF inclusive; otherwise \\u{hex} (all scalar values); the escaping flags reach escape_regexp_symbols in the right order, also for nested repetitions.', 'std encode_utf16 / escape_unicode renderings; closure plumbing in escape_non_ascii_chars; the decoding clause needs the printer.'),
 'C12': ('section 4 (C12)', 'After the flag-mapping statements of handle_input the builder config equals config_of(cli) written from the help text, for all 2^17 flag combinations and all thresholds; the threshold parser returns only positive values; default config.', 'clap fills Cli as its attributes say; input channels, CR/LF, exit status and stdout bytes are operating-system behaviour and not decided.'),
 'C13': ('section 4 (C13)', 'The repetition filter keeps a range iff count > minimum_repetitions (strict); the substring-length guard is the strict comparison; Grapheme::from creates no quantifier; conversion is gated by the option only; Display for Grapheme prints braces iff the grapheme is quantified.', 'Detection, nested units, that the guarded continue skips the splice.'),
 'C15': ('section 4 (C15)', 'For every component the coloured rendering is the plain rendering with one SGR pair around the visible core (groups: around each parenthesis) and the same line-break structure; to_repr selects by the flag; the flag/anchor/outer-group assembly of Display for RegExp.', 'The colour-aware indenter, colouring inside Expression/Grapheme Display and literal text that resembles an SGR sequence are NOT decided.'),
 'C16': ('sections 3, 4 (C16)', 'S2a trie insertion (accepting path, no relabelling: KF2), S2c graph re-creation (KF1), S3 elimination loop (exact), the elimination algebra, the composition in RegExp::from, and the structural printing decisions are under contract; each failing obligation names its stage.', 'Stage contracts S1 (clusters), the Hopcroft loop, the matrix-building loop of S3 and the text-level part of S4 are assumed; minimality is not decided.'),
 'C17': ('section 4 (C17)', 'Every wasm setter has exactly the effect of the library setter of the same name (same spec function), thresholds return Err with the library message iff 0, build delegates: for all setter histories.', 'wasm_bindgen glue, JsValue, `from` array conversion and JS exceptions vs traps are not modelled.'),
}
NOT_APPLICABLE = {
 'C14': 'python.rs is pyo3 glue around two regex::Regex::replace_all calls and is not compiled without pyo3; needs the regex engine and CPython re semantics, neither expressible as a contract here (DESIGN.md section 7)',
}
def main():
    checks = []
    for pid in sorted(CLAIMS):
        ref, text, note = CLAIMS[pid]
        checks.append({'property_id': pid, 'quick_cmd': './check %s --tier quick' % pid, 'thorough_cmd': './check %s --tier thorough' % pid,
                       'evidence_file': '/verif/evidence/%s.json' % pid, 'replay_cmd_template': './check %s --replay {path}' % pid,
                       'engine': 'verus' + ('+kani' if pid == 'C09' else ''),
                       'level_claimed': {'category': 'proof', 'text': text + '  Partial: the property as stated is end-to-end; this check proves the listed function-level contracts for all inputs and names every stage it assumes.' if pid != 'C09' else text, 'design_ref': 'DESIGN.md ' + ref},
                       'level_note': note + '  Units: ' + ', '.join(PROP_UNITS[pid]) + '.  Full generated trusted base: evidence file, coverage.trusted_base.',
                       'technique': T + ('; Kani/CBMC for the table look-ups' if pid == 'C09' else '')})
    man = {'version': 1, 'setup_cmd': './setup.sh',
           'hooks': {'guard': 'kani', 'enable': 'none needed: nothing is added to /repo; the Kani harness (vx/kani_harness.rs, #[cfg(kani)]) is appended to a scratch copy of src/cluster.rs at run time',
                     'baseline_off_cmd': 'cd /repo && cargo nextest run --workspace --no-fail-fast --tool-config-file pb:/w/lib/nextest.toml --profile pb --test-threads 8 --offline || cargo test --workspace --no-fail-fast --offline',
                     'source_commits': [], 'add_only': True},
           'engines': [{'name': 'verus', 'path': '/verif/vx', 'serves_properties': sorted(CLAIMS), 'kind_free_text': 'extractor + assembler + Verus driver (Python 3 stdlib); contracts in /verif/units, spec library in /verif/spec'},
                       {'name': 'kani', 'path': '/verif/vx/kani.py', 'serves_properties': ['C09'], 'kind_free_text': 'cargo kani on a scratch copy of /repo with vx/kani_harness.rs appended'},
                       {'name': 'replay', 'path': '/verif/replay', 'serves_properties': sorted(CLAIMS), 'kind_free_text': 'binary with a path dependency on /repo: replays concrete witnesses and known-finding inputs on the real library'}],
           'checks': checks,
           'notes': 'Two genuine defects were repaired in /repo by fix: commits (known_findings.txt, fixed: lines); one is a recorded known finding (KF1). Exit 2 + UNDECIDED is used for lost anchors, constructs outside the dialect and resource limits; it is never an alarm.',
           'not_applicable': [{'property_id': k, 'reason': v} for k, v in sorted(NOT_APPLICABLE.items())]}
    json.dump(man, open(os.path.join(ROOT, 'MANIFEST.json'), 'w'), indent=1)
    try:
        import jsonschema
        jsonschema.validate(man, json.load(open('/root/.vp/MANIFEST.schema.json')))
        print('MANIFEST.json written and valid')
    except ImportError:
        print('MANIFEST.json written (jsonschema not importable here)')
if __name__ == '__main__': main()
