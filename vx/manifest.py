#!/usr/bin/env python3
"""Generates /verif/MANIFEST.json from the table below (so that it is always valid against the schema)."""
import json, os, sys
HERE = os.path.dirname(os.path.abspath(__file__)); ROOT = os.path.dirname(HERE)
sys.path.insert(0, ROOT)
from units import PROP_UNITS

T = 'contract-based deductive verification: Verus (Z3) discharges requires/ensures/invariant obligations on functions, closure bodies and statement ranges extracted verbatim from /repo/src on every run'
CLAIMS = {
 'C01': ('sections 3.2, 3.4, 4 (C01), 5 (KF1)', 'For all operands: union/concatenate never lose a word of either operand, rotation of alternatives keeps the language, case conversion keeps the code-point count, every grapheme cluster containing a backslash is split, Dfa::insert marks the reached state (the start state for the empty test case), recreate_graph keeps accepting states (fails on the unchanged tree: KNOWN-FINDING KF1, replayed on the real library each run).', 'Trie edges (find_next_state/add_new_state), the Hopcroft refinement loop, the elimination loop of Expression::from, printing/escaping and the regex crate parser are stage contracts that are assumed, not proved.'),
 'C02': ('sections 3.2, 3.4, 4 (C02)', 'For all expression trees: union, concatenate and remove_common_substring are language-exact (equalities in the language algebra of Appendix A, all lemmas proved); recreate_graph creates no new accepting state and maps the start state.', 'Assumed contracts of find_common_substring, remove_substring, new_alternation, new_character_class, is_single_codepoint; Hopcroft merging, format.rs parenthesisation and anchors as parsed by the regex crate are not decided.'),
 'C03': ('section 4 (C03)', 'The per-code-point conversion chain of convert_to_char_classes equals the documented precedence for every scalar value and all 64 flag subsets; the six flag reads bind the like-named config fields; every converted token denotes a class containing the character.', 'map/join plumbing around the closure; transport of class tokens through dfa.rs; is_digit/is_word/is_space equal the tables (discharged under C09).'),
 'C04': ('section 4 (C04)', 'Lower-casing happens exactly when the code-point count is preserved; the (?i)/(?ix)/(?x) flag component is chosen correctly for all configurations.', 'std to_lowercase vs the regex crate folding tables (known to differ for letters cased after Unicode 15) is not decidable here.'),
 'C07': ('section 4 (C07)', 'No unwrap-on-None, out-of-range index, overflow or violated callee precondition in any function under contract; threshold panics unreachable for positive arguments; CLI parser rejects 0; backslash split rule.', 'Self-check unwraps in regexp.rs, drain/splice ranges in cluster.rs, String::replace chains of the escaper, petgraph unwraps outside the contracted functions.'),
 'C08': ('section 4 (C08)', '^ / $ components are emitted iff the anchor is not disabled (all configurations); rotation of alternatives keeps the language.', 'Placement in the final string and leftmost-first search semantics of the regex crate are not decided.'),
 'C09': ('section 4 (C09)', 'The three grex tables equal the regex-syntax Perl tables as sets of scalar values (Verus, all 1,112,064 values; z3 witness replayed on failure); is_digit and is_space look-ups equal table membership for every char (Kani, complete: loops bounded by the constant table length, unwinding assertions on); is_word look-up in the thorough tier (37 min, 24 GB).', 'regex-syntax builds \\d \\s \\w from exactly those tables; in the quick tier is_word(c) <=> c in WORD is an assumption.'),
 'C10': ('sections 3.3, 4 (C10)', 'All pairs of setters commute, boolean setters are idempotent, last value wins for valued setters (for all configs): the config is a function of the call set; the sort comparator is a total order without ties.', 'HashSet iteration order under per-process seeds, threads and separate processes are outside the reach of the installed verifiers and are NOT decided.'),
 'C11': ('section 4 (C11), 5 (F1)', 'Grapheme::escape: ASCII passthrough; surrogates iff requested and U+10000 <= c <= U+10FFFF inclusive; otherwise \\u{hex} (all scalar values).', 'std encode_utf16 / escape_unicode renderings; closure plumbing in escape_non_ascii_chars; grouping decision in Grapheme::fmt; the decoding clause needs the printer.'),
 'C12': ('section 4 (C12)', 'After the flag-mapping statements of handle_input the builder config equals config_of(cli) written from the help text, for all 2^17 flag combinations and all thresholds; the threshold parser returns only positive values.', 'clap fills Cli as its attributes say; input channels, CR/LF, exit status and stdout bytes are operating-system behaviour and not decided.'),
 'C13': ('section 4 (C13)', 'The repetition filter keeps a range iff count > minimum_repetitions (strict, all values).', 'Detection, nested units, the substring-length continue, brace printing.'),
 'C16': ('sections 3.2, 3.4, 4 (C16)', 'The elimination algebra (union/concatenate/remove_common_substring/constructors) is language-exact; graph re-creation after refinement keeps start state and accepting states (KF1 known finding).', 'Stage contracts S1 (clusters), S2 except insert/recreate_graph, the S3 loop and S4 (printer/parser) are assumed; minimality is not decided.'),
 'C17': ('section 4 (C17)', 'Every wasm setter has exactly the effect of the library setter of the same name (same spec function), thresholds return Err with the library message iff 0, build delegates: for all setter histories.', 'wasm_bindgen glue, JsValue, `from` array conversion and JS exceptions vs traps are not modelled.'),
}
NOT_APPLICABLE = {
 'C05': 'every mechanism it names (convert_repetitions and helpers: HashMap<Vec<String>,_>, itertools coalesce/chunk_by/tuple_windows, splice; get_parent_states; {n} printing via write!) is outside the Verus subset and Kani does not terminate on it even on concrete inputs; no contract within reach expresses "same language with and without the option" (DESIGN.md section 7)',
 'C06': 'a property of the printed text under the regex crate parser (String::replace rewriting in verbose mode, group syntax, \\u{..}): format!/write!/replace code Verus rejects and Kani cannot finish; a spec of the regex concrete syntax would itself be the trusted part (DESIGN.md section 7)',
 'C14': 'python.rs is pyo3 glue around two regex::Regex::replace_all calls and is not compiled without pyo3; needs the regex engine and CPython re semantics, neither expressible as a contract here (DESIGN.md section 7)',
 'C15': 'relational property of two format!-built renderings (18 component variants, recursive Display, colour-aware indenter): string formatting that neither installed verifier can reason about (DESIGN.md section 7)',
}
def main():
    checks = []
    for pid in sorted(CLAIMS):
        ref, text, note = CLAIMS[pid]
        checks.append({'property_id': pid, 'quick_cmd': './check %s --tier quick' % pid, 'thorough_cmd': './check %s --tier thorough' % pid,
                       'evidence_file': '/verif/evidence/%s.json' % pid, 'replay_cmd_template': './check %s --replay {path}' % pid,
                       'engine': 'verus' + ('+kani' if pid == 'C09' else ''),
                       'level_claimed': {'category': 'proof', 'text': text + '  Partial: the property as stated is end-to-end; this check proves the listed function-level contracts for all inputs and names every stage it assumes.' if pid != 'C09' else text, 'design_ref': 'DESIGN.md ' + ref},
                       'level_note': note + '  Units: ' + ', '.join(PROP_UNITS[pid]) + '.  Full generated trusted base: evidence file, coverage.trusted_base.',
                       'technique': T + ('; Kani/CBMC for the table look-ups' if pid == 'C09' else '')})
    man = {'version': 1, 'setup_cmd': './setup.sh',
           'hooks': {'guard': 'kani', 'enable': 'none needed: nothing is added to /repo; the Kani harness (vx/kani_harness.rs, #[cfg(kani)]) is appended to a scratch copy of src/cluster.rs at run time',
                     'baseline_off_cmd': 'cd /repo && cargo nextest run --workspace --no-fail-fast --tool-config-file pb:/w/lib/nextest.toml --profile pb --test-threads 8 --offline || cargo test --workspace --no-fail-fast --offline',
                     'source_commits': [], 'add_only': True},
           'engines': [{'name': 'verus', 'path': '/verif/vx', 'serves_properties': sorted(CLAIMS), 'kind_free_text': 'extractor + assembler + Verus driver (Python 3 stdlib); contracts in /verif/units, spec library in /verif/spec'},
                       {'name': 'kani', 'path': '/verif/vx/kani.py', 'serves_properties': ['C09'], 'kind_free_text': 'cargo kani on a scratch copy of /repo with vx/kani_harness.rs appended'},
                       {'name': 'replay', 'path': '/verif/replay', 'serves_properties': sorted(CLAIMS), 'kind_free_text': 'binary with a path dependency on /repo: replays concrete witnesses and known-finding inputs on the real library'}],
           'checks': checks,
           'notes': 'Two genuine defects were repaired in /repo by fix: commits (known_findings.txt, fixed: lines); one is a recorded known finding (KF1). Exit 2 + UNDECIDED is used for lost anchors, constructs outside the dialect and resource limits; it is never an alarm.',
           'not_applicable': [{'property_id': k, 'reason': v} for k, v in sorted(NOT_APPLICABLE.items())]}
    json.dump(man, open(os.path.join(ROOT, 'MANIFEST.json'), 'w'), indent=1)
    try:
        import jsonschema
        jsonschema.validate(man, json.load(open('/root/.vp/MANIFEST.schema.json')))
        print('MANIFEST.json written and valid')
    except ImportError:
        print('MANIFEST.json written (jsonschema not importable here)')
if __name__ == '__main__': main()
