#!/usr/bin/env python3
"""Check driver.

usage: run.py <PROPERTY> [--tier quick|thorough] [--repo /repo]
       run.py <PROPERTY> --replay <file>
       run.py --write-registry          (maintainer command: records the obligation labels of every unit)

Exit codes: 0 = every obligation of the property discharged (known findings printed as KNOWN-FINDING lines),
            1 = a registered obligation failed with a verification diagnostic (VIOLATION line printed),
            2 = UNDECIDED (lost anchor, construct outside the dialect, resource limit, tool failure) -- never an alarm.
"""
import sys, os, json, time, argparse, re, shlex, subprocess, concurrent.futures as cf
HERE = os.path.dirname(os.path.abspath(__file__)); ROOT = os.path.dirname(HERE)
sys.path.insert(0, ROOT)
from vx import runverus, extract, witness
from units import REGISTRY as UNITS, PROP_UNITS, NO_CANARY, PROP_NOTES

REGISTRY_FILE = os.path.join(HERE, 'registry.json')
KF_FILE = os.path.join(ROOT, 'known_findings.txt')

def known_findings(path=KF_FILE):
    out = []
    if os.path.exists(path):
        for ln in open(path):
            ln = ln.strip()
            if ln.startswith('finding:'):
                d = {}
                for tok in shlex.split(ln[len('finding:'):]):
                    if '=' in tok:
                        k, v = tok.split('=', 1); d[k] = v
                d['line'] = ln
                out.append(d)
    return out

def run_unit(name, repo, spec_dir, build_dir, canary=False):
    t0 = time.time()
    try:
        b = UNITS[name](repo, spec_dir, canary=canary)
    except (extract.LostAnchor, KeyError, ValueError, IndexError, AssertionError) as e:
        return {'unit': name, 'status': 'undecided', 'reason': 'extraction: %s: %s' % (type(e).__name__, e), 'wall_s': time.time() - t0}
    path = os.path.join(build_dir, '%s%s.rs' % (name, '_canary' if canary else ''))
    with open(path, 'w') as f: f.write(b.text())
    r = runverus.run(path, rlimit=getattr(b, 'rlimit', None))
    r.update(unit=name, builder=b, path=path, failures=runverus.map_errors(b, r, path))
    return r

def load_registry():
    try: return json.load(open(REGISTRY_FILE))
    except Exception: return {}

def write_registry(repo):
    spec_dir, build_dir = os.path.join(ROOT, 'spec'), os.path.join(ROOT, 'build')
    os.makedirs(build_dir, exist_ok=True)
    reg = {}
    for u in sorted(UNITS):
        b = UNITS[u](repo, spec_dir, canary=False)
        reg[u] = sorted(set(lab for lab, _ in b.obligations))
    json.dump(reg, open(REGISTRY_FILE, 'w'), indent=1, sort_keys=True)
    print('registry written: %d units, %d obligations' % (len(reg), sum(len(v) for v in reg.values())))

def replay(prop, path):
    """Re-run what a replay file describes against the current tree."""
    txt = open(path).read()
    print(txt if len(txt) < 6000 else txt[:6000] + '\n... (truncated)')
    m = re.search(r'^failed obligation: (\S+?):(\S+)$', txt, re.M)
    rc = 0
    mi = re.search(r'^concrete input \(vx-replay arguments\): (.*)$', txt, re.M)
    if mi:
        r = witness.replay_on_real_code(shlex.split(mi.group(1)))
        print('--- replay on the real library (current /repo working tree) ---\n' + r['output'])
        rc = 1 if r['rc'] == 1 else 0
    if m:
        unit, lab = m.group(1), m.group(2)
        spec_dir, build_dir = os.path.join(ROOT, 'spec'), os.path.join(ROOT, 'build')
        os.makedirs(build_dir, exist_ok=True)
        r = run_unit(unit, '/repo', spec_dir, build_dir)
        still = [f for f in r.get('failures', []) if f['obligation'] and f['obligation'][1] == lab]
        print('--- re-verification of unit %s on the current tree: status=%s; obligation %s %s ---' % (unit, r['status'], lab, 'STILL FAILS' if still else 'does not fail'))
        if still: rc = 1
    sys.exit(rc)

def main():
    ap = argparse.ArgumentParser()
    ap.add_argument('prop', nargs='?'); ap.add_argument('--tier', default=os.environ.get('VERIF_TIER') or 'quick')
    ap.add_argument('--repo', default='/repo'); ap.add_argument('--out', default=os.path.join(ROOT, 'evidence'))
    ap.add_argument('--replay'); ap.add_argument('--write-registry', action='store_true')
    a = ap.parse_args()
    if a.write_registry: return write_registry(a.repo)
    if a.replay: return replay(a.prop, a.replay)
    prop, t0 = a.prop, time.time()
    if prop not in PROP_UNITS:
        print('UNDECIDED property=%s is not claimed (see MANIFEST.json not_applicable)' % prop); sys.exit(2)
    # one build directory per property: checks of different properties may run concurrently and share units
    spec_dir, build_dir = os.path.join(ROOT, 'spec'), os.path.join(ROOT, 'build', prop)
    os.makedirs(build_dir, exist_ok=True); os.makedirs(a.out, exist_ok=True); os.makedirs(os.path.join(ROOT, 'replay_out'), exist_ok=True)
    kf = [k for k in known_findings() if k.get('property') == prop]
    units = PROP_UNITS[prop]
    jobs = [(u, False) for u in units] + [(u, True) for u in units if u not in NO_CANARY]
    extra = {}
    with cf.ThreadPoolExecutor(max_workers=14) as ex:
        futs = [ex.submit(run_unit, j[0], a.repo, spec_dir, build_dir, j[1]) for j in jobs]
        # property-specific engines that run next to Verus (Kani look-ups for C09)
        if prop == 'C09':
            from vx import kani
            extra['kani'] = ex.submit(kani.run, a.repo, a.tier, os.path.join(ROOT, 'build'))
        res = [f.result() for f in futs]
        extra = {k: f.result() for k, f in extra.items()}
    main_res = {r['unit']: r for r, j in zip(res, jobs) if not j[1]}
    canary_res = {r['unit']: r for r, j in zip(res, jobs) if j[1]}
    registry = load_registry()
    undecided = []
    for u, r in main_res.items():
        if r['status'] in ('undecided', 'timeout', 'tool_error'):
            undecided.append((u, r.get('reason') or [d['msg'] for d in r.get('other_errors', [])][:3] or r['status']))
    obligations, failed, known_lines, kf_obls, violations = [], [], [], [], []
    trusted, rewrites, fns, smt_ms, rlimit_total, fn_times, unverified = [], [], [], 0, 0, {}, {}
    for u, r in main_res.items():
        if 'builder' not in r: continue
        b = r['builder']
        labels_now = set(lab for lab, _ in b.obligations)
        missing = set(registry.get(u, [])) - labels_now
        if missing: undecided.append((u, 'obligations of the registry no longer generated: %s' % sorted(missing)[:5]))
        mine = [(lab, props) for lab, props in b.obligations if prop in props]
        obligations += ['%s:%s' % (u, lab) for lab, _ in mine]
        trusted += ['[%s] %s' % (u, t) for t in b.trusted]
        rewrites += ['[%s] %s %s: %s => %s' % (u, e['rule'], e['where'], e['before'], e['after']) for e in b.log]
        fns += ['%s:%s' % (u, f[2]) for f in b.fn_ranges]
        # mechanical scan of the assembled file for everything that is assumed rather than proved
        try:
            txt = open(r['path']).read()
            scan = {'external_body': sorted(set(re.findall(r'#\[verifier::external_body\]\s*(?:pub\s+)?(?:fn|struct)\s+(\w+)', txt))),
                    'assume_specification': sorted(set(re.findall(r'assume_specification(?:<[^>]*>)?\s*\[\s*([^\]]+?)\s*\]', txt))),
                    'axioms': sorted(set(re.findall(r'axiom fn (\w+)', txt))),
                    'uninterpreted': sorted(set(re.findall(r'uninterp spec fn (\w+)', txt)))}
            unverified[u] = scan
            if re.search(r'\b(assume|admit)\s*\(', re.sub(r'assume_specification', '', txt)):
                undecided.append((u, 'the assembled file contains assume( or admit('))
        except Exception:
            pass
        if r.get('json'):
            smt = (r['json'].get('times-ms') or {}).get('smt') or {}
            smt_ms += smt.get('total', 0); rlimit_total += smt.get('rlimit-run', 0)
            for mod in smt.get('smt-run-module-times', []):
                for fb in mod.get('function-breakdown', []):
                    fn_times['%s:%s' % (u, fb['function'])] = {'ms': fb['time'], 'rlimit': fb['rlimit'], 'success': fb['success']}
        for f in r['failures']:
            if f['obligation'] is None:
                undecided.append((u, 'unmapped verification error: ' + f['msg'])); continue
            fn, lab, props = f['obligation']
            if prop not in props: continue
            failed.append('%s:%s' % (u, lab))
            hit = [k for k in kf if k.get('unit') == u and k.get('obligation') == lab and k.get('kind', f['msg']) in f['msg'] and ('site' not in k or k['site'] == f.get('site'))]
            if hit:
                k = hit[0]; still = True
                if k.get('input'):      # the finding is tied to a concrete input: it must still misbehave on the real library
                    rr = witness.replay_on_real_code(shlex.split(k['input']))
                    still = rr['rc'] == 1
                    k['_replay'] = rr['output'].strip().splitlines()
                if still:
                    known_lines.append('KNOWN-FINDING: property=%s %s' % (prop, k.get('note', lab)))
                    kf_obls.append('%s:%s' % (u, lab))
                else:
                    violations.append((u, lab, f))
            else:
                violations.append((u, lab, f))
    # canary: every contracted function must fail its `vx_canary(i) ==> false` clause
    vacuous, canary_fns = [], 0
    for u, r in canary_res.items():
        if 'builder' not in r:
            undecided.append((u + '(canary)', r.get('reason'))); continue
        b = r['builder']
        if r['status'] in ('undecided', 'timeout', 'tool_error'):
            undecided.append((u + '(canary)', [d['msg'] for d in r.get('other_errors', [])][:3] or r['status'])); continue
        hit = set()
        for d in r.get('verif_errors', []):
            for (_, line, _) in d['spans']:
                if line in b.canary_lines: hit.add(b.canary_lines[line])
        canary_fns += len(set(b.canary_lines.values()))
        for fn in set(b.canary_lines.values()) - hit:
            vacuous.append('%s:%s' % (u, fn))
    # other engines
    kani_res = extra.get('kani')
    # what this check does NOT decide: the level_note of MANIFEST.json (generated from vx/manifest.py), copied into the evidence
    try:
        man = json.load(open(os.path.join(ROOT, 'MANIFEST.json')))
        note = [c['level_note'] for c in man['checks'] if c['property_id'] == prop]
        PROP_NOTES[prop] = ['NOT DECIDED by this check: ' + n for n in note]
    except Exception:
        pass
    assumptions = list(PROP_NOTES.get(prop, []))
    if kani_res:
        for h in kani_res['harnesses']:
            name = 'kani:' + h['name']
            if h['status'] == 'proved': obligations.append(name)
            elif h['status'] == 'failed':
                obligations.append(name); failed.append(name); violations.append(('kani', h['name'], {'msg': 'Kani: ' + h['detail'], 'spans': [], 'kani': h}))
            elif h['status'] == 'canary_ok': pass
            elif h['status'] == 'canary_vacuous': undecided.append(('kani', 'canary %s was not refuted: %s' % (h['name'], h['detail'])))
            elif h['status'] == 'not_run': assumptions.append('NOT EXPLORED in this tier: ' + h['claim'])
            else:
                assumptions.append('NOT EXPLORED (resource limit / tool): ' + h['claim'])
                if h.get('required'): undecided.append(('kani', '%s: %s' % (h['name'], h['detail'])))
        trusted += ['[kani] ' + t for t in kani_res['trusted']]
    obl_set = set(obligations); kf_set = set(kf_obls)
    counted = obl_set - kf_set
    selftest = None
    if a.tier == 'thorough' and not violations:
        from vx import selftest as ST
        selftest = ST.run(a.repo, units=set(units))
        bad = [m for m in selftest if m.get('as_expected') is False]
        if bad: undecided.append(('selftest', 'mutation self-test: %s not as expected' % [m['mutant'] for m in bad]))
    # hand-copied assumed contracts must still be the text the verifying unit proves (modular soundness guard, vx/crosscheck.py)
    try:
        from vx import crosscheck
        xc_checked, xc_problems = crosscheck.run(UNITS, a.repo, spec_dir, only_units=set(units))
        for pr in xc_problems: undecided.append(('crosscheck', pr))
    except Exception as e:
        xc_checked = []; undecided.append(('crosscheck', repr(e)))
    bounded_res = None
    if a.tier == 'thorough' and not violations and prop in ('C05', 'C10', 'C13', 'C16'):
        from vx import bounded
        bounded_res = bounded.run(a.repo, os.path.join(ROOT, 'build'))
        if bounded_res['status'] == 'violation':
            violations.append(('bounded', 'detection-contract.symbols_kept', {'msg': 'bounded check on the real code: ' + bounded_res['detail'], 'spans': [], 'kani': {'log': bounded_res.get('log', '')}}))
        elif bounded_res['status'] == 'assumption_broken':
            undecided.append(('bounded', 'the contract that unit repeats assumes of the detection stage (detection_ok) fails on the real code: %s -- the proofs of unit repeats no longer apply' % bounded_res['detail']))
        elif bounded_res['status'] != 'ok':
            assumptions.append('NOT EXPLORED (resource limit / tool): bounded check of the detection contract: ' + bounded_res['detail'])
    ev = {'property_id': prop, 'tier': a.tier, 'seed': int(os.environ.get('VERIF_SEED') or 0), 'level': 'proof', 'wall_s': round(time.time() - t0, 2),
          'violations': len(violations),
          'coverage': {'obligations': len(counted), 'discharged': len(counted - set(failed)),
                       'checker_cmd': 'verus build/<unit>.rs --output-json --time --multiple-errors 50   (units: %s)%s' % (', '.join(units), '; cargo kani --lib --no-default-features --harness <h> on a scratch copy of /repo with vx/kani_harness.rs appended' if kani_res else ''),
                       'trusted_base': sorted(set(trusted)),
                       'samples': sorted(counted)[:60],
                       'back_end': 'Verus 0.2026.09.13 (Z3)' + (' + Kani 0.68 (CBMC 6.11, CaDiCaL)' if kani_res else ''),
                       'functions_under_contract': sorted(set(fns)), 'function_times': fn_times, 'assumed_items_scan': unverified,
                       'smt_time_ms': smt_ms, 'rlimit_units': rlimit_total,
                       'rewrites_applied': rewrites,
                       'units': {u: r['status'] for u, r in main_res.items()},
                       'canary': {'functions_checked': canary_fns, 'vacuous': vacuous},
                       'known_finding_obligations': sorted(kf_set), 'known_findings_reported': sorted(set(known_lines)),
                       'failed_obligations': sorted(set(failed) - kf_set),
                       'undecided': [[str(x) for x in u] for u in undecided],
                       'not_decided_by_this_check': PROP_NOTES.get(prop, [])},
          'assumptions': sorted(set(trusted)) + assumptions}
    if kani_res: ev['coverage']['kani'] = [{k: v for k, v in h.items() if k != 'log'} for h in kani_res['harnesses']]
    if selftest is not None:
        ev['coverage']['mutation_selftest'] = selftest
        ev['coverage']['mutation_selftest_summary'] = {'mutants': len(selftest), 'as_expected': sum(1 for m in selftest if m.get('as_expected')), 'skipped_because_their_anchor_is_not_in_the_current_tree': [m['mutant'] for m in selftest if 'skipped' in str(m.get('result', ''))]}
    ev['coverage']['assumed_contracts_compared_with_the_verified_text'] = xc_checked
    if bounded_res is not None: ev['coverage']['bounded_checks'] = [{k: v for k, v in bounded_res.items() if k != 'log'}]
    with open(os.path.join(a.out, prop + '.json'), 'w') as f: json.dump(ev, f, indent=1)
    for ln in sorted(set(known_lines)): print(ln)
    if violations:
        for (u, lab, f) in violations:
            rp = os.path.join(ROOT, 'replay_out', '%s_%s_%s.txt' % (prop, u, re.sub(r'\W+', '_', lab)))
            w = witness.hunt(prop, u, lab, f, a.repo)
            with open(rp, 'w') as fh:
                fh.write('failed obligation: %s:%s\nproperty: %s\nverifier diagnostic: %s\n' % (u, lab, prop, f['msg']))
                if u not in ('kani', 'bounded'):
                    fh.write('assembled file: %s\nspans: %s\nsite: %s\n' % (main_res[u]['path'], f['spans'], f.get('site')))
                if w and w.get('args'):
                    fh.write('concrete input (vx-replay arguments): %s\n--- the real library on that input ---\n%s\n' % (' '.join(shlex.quote(x) for x in w['args']), w['output']))
                else:
                    fh.write('no concrete failing input: %s\n' % (w or {}).get('why', 'Verus gives no counterexample and no witness candidate of this obligation fails on the real library'))
                fh.write('\n--- verifier output ---\n%s\n' % (f.get('kani', {}).get('log') or main_res.get(u, {}).get('stderr', '')))
            print('VIOLATION property=%s replay=%s obligation=%s:%s %s' % (prop, rp, u, lab, ('failing-input=' + ' '.join(shlex.quote(x) for x in w['args'])) if w and w.get('args') else 'no-failing-input-found'))
        sys.exit(1)
    if undecided or vacuous:
        print('UNDECIDED property=%s undecided=%s vacuous=%s' % (prop, undecided, vacuous)); sys.exit(2)
    print('OK property=%s obligations=%d discharged=%d known_findings=%d wall=%.1fs' % (prop, ev['coverage']['obligations'], ev['coverage']['discharged'], len(set(known_lines)), time.time() - t0))

if __name__ == '__main__':
    try:
        main()
    except SystemExit:
        raise
    except BaseException as e:      # a bug or resource problem of the driver is never an alarm
        import traceback
        traceback.print_exc()
        print('UNDECIDED driver error: %r' % (e,))
        sys.exit(2)
