"""The closed rewrite table (DESIGN.md Appendix B). Every application is logged."""
import re
from . import rustlex as L

class Log(list):
    def add(self, rule, where, before, after):
        self.append({'rule': rule, 'where': where, 'before': before.strip()[:120], 'after': after.strip()[:120]})

def strip_attrs_and_docs(text, log, where):
    """R0: remove outer attributes (#[...], possibly multi-line), doc comments and plain line comments of an item."""
    out, i, n = [], 0, len(text)
    removed = 0
    while i < n:
        k = L.skip_trivia_and_literals(text, i)
        if k != i:
            seg = text[i:k]
            if seg.startswith('//'):      # line/doc comment: drop
                removed += 1
                # also drop preceding indentation on that line
                while out and out[-1] in ' \t': out.pop()
                i = k; continue
            out.append(seg); i = k; continue
        if text.startswith('#[', i) or text.startswith('#![', i):
            j = text.index('[', i)
            e = L.match_close(text, j)
            removed += 1
            while out and out[-1] in ' \t': out.pop()
            i = e + 1
            if i < n and text[i] == '\n': i += 1
            continue
        out.append(text[i]); i += 1
    if removed: log.add('R0', where, '%d attributes/comments' % removed, 'removed')
    return ''.join(out)

def widen_visibility(text, log, where):
    """R10: pub(crate)/pub(super) -> pub; bare struct fields -> pub (single-file crate)."""
    new = re.sub(r'\bpub\((?:crate|super)\) ', 'pub ', text)
    if new != text: log.add('R10', where, 'pub(crate)', 'pub')
    return new

def pub_fields(struct_text, log, where):
    def fix(m):
        return m.group(1) + 'pub ' + m.group(2)
    new = re.sub(r'^(\s+)((?!pub\b)[a-z_][a-z0-9_]*\s*:)', fix, struct_text, flags=re.M)
    if new != struct_text: log.add('R10', where, 'private field', 'pub field')
    return new

RULES = [
    # (id, regex, replacement, assumed semantics)
    ('R3',  r"\(\s*('(?:\\u\{[0-9a-fA-F]+\}|\\.|[^'\\])')\s*\.\.=\s*('(?:\\u\{[0-9a-fA-F]+\}|\\.|[^'\\])')\s*\)\s*\.contains\(\s*&(\w+)\s*\)", r"vx_range_contains(\1, \2, true, &\3)", 'RangeInclusive<char>::contains'),
    ('R3',  r"\(\s*('(?:\\u\{[0-9a-fA-F]+\}|\\.|[^'\\])')\s*\.\.\s*('(?:\\u\{[0-9a-fA-F]+\}|\\.|[^'\\])')\s*\)\s*\.contains\(\s*&(\w+)\s*\)", r"vx_range_contains(\1, \2, false, &\3)", 'Range<char>::contains'),
    ('R8',  r"\b(\w+)\.escape_unicode\(\)\.to_string\(\)", r"vx_escape_unicode(\1)", 'char::escape_unicode rendering (uninterpreted)'),
    ('R5',  r"\b(\w+)\.iter\(\)\.map\(\|it\| it\.chars\(\)\.count\(\)\)\.sum(?:::<usize>)?\(\)", r"vx_sum_char_counts(&\1)", 'iter().map(|it| it.chars().count()).sum(): the total number of code points of the strings (uninterpreted; not the number of strings)'),
    ('R5',  r"\b(\w+)\.chars\(\)\.count\(\)", r"vx_char_count(&\1)", 'str::chars().count() = number of scalar values'),
    ('R12', r"\b(\w+)\.contains\(('(?:\\u\{[0-9a-fA-F]+\}|\\.|[^'\\])')\)", r"vx_str_contains_char(\1, \2)", 'str::contains(char)'),
    ('R12', r"\b(\w+)\.ends_with\(('(?:\\u\{[0-9a-fA-F]+\}|\\.|[^'\\])')\)", r"vx_str_ends_with_char(\1, \2)", 'str::ends_with(char)'),
    ('R12', r"\b(\w+)\.starts_with\(('(?:\\u\{[0-9a-fA-F]+\}|\\.|[^'\\])')\)", r"vx_str_starts_with_char(\1, \2)", 'str::starts_with(char)'),
    ('R21', r"(?m)^(\s*)([A-Za-z_][\w\.]*) \|= ([A-Za-z_][\w\.]*);", r"\1\2 = \2 || \3;", 'bool `|=` with a side-effect-free right operand (Verus rejects non-short-circuit `|` on bools)'),
    ('R21', r"(?m)^(\s*)([A-Za-z_][\w\.]*) &= ([A-Za-z_][\w\.]*);", r"\1\2 = \2 && \3;", 'bool `&=` with a side-effect-free right operand'),
    ('R6',  r"\bpanic!\s*\((?:[^()]|\([^()]*\))*\)", r"vx_unreachable_panic()", 'panic! is a call with `requires false`'),
]

def apply_rules(text, log, where, extra=()):
    for rid, pat, rep, sem in list(RULES) + list(extra):
        def sub(m, rid=rid, rep=rep):
            new = m.expand(rep)
            log.add(rid, where, m.group(0), new)
            return new
        text = re.sub(pat, sub, text)
    return text

def _continue_tail(block_inner):
    """if the last top-level statement of a block is `continue;` return the block text without it, else None"""
    st = L.split_stmts(block_inner)
    if not st: return None
    a, z = st[-1]
    if block_inner[a:z].strip() != 'continue;': return None
    return block_inner[:a].rstrip()

def _desugar_body(inner, indent):
    """R14 on the inner text of one `for` body: `if C { S; continue; } REST`  =>  `if C { S; } else { REST }` (recursively on REST)."""
    st = L.split_stmts(inner)
    for idx, (a, z) in enumerate(st):
        s = inner[a:z]
        if not s.startswith('if '): continue
        bo = L.body_open(s, 0)
        bc = L.match_close(s, bo)
        if s[bc + 1:].strip(): continue            # has an else branch (or a trailing `;`): not the shape R14 handles
        kept = _continue_tail(s[bo + 1:bc])
        if kept is None: continue
        rest = inner[z:]
        rest2, n = _desugar_body(rest, indent)
        if not rest2.strip():
            new = inner[:a] + s[:bo] + '{' + kept + ('\n' + indent if kept.strip() else '') + '}' + rest2
        else:
            new = inner[:a] + s[:bo] + '{' + kept + ('\n' + indent if kept.strip() else '') + '} else {' + rest2.rstrip() + '\n' + indent + '}\n'
        return new, n + 1
    return inner, 0

def desugar_continue(text, log, where):
    """R14: Verus rejects `continue` inside `for`.  A top-level `if C { ..; continue; }` (no else) of a for-body followed by the rest of
    the body is rewritten to `if C { .. } else { rest }` -- the textbook structured equivalent; nothing else in the loop is touched.
    A `continue` in any other position is left alone (Verus then reports it: UNDECIDED, not an alarm)."""
    total = 0
    while True:
        changed = False
        for (fi, bo, bc) in L.find_for_loops(text):
            inner = text[bo + 1:bc]
            if 'continue' not in inner: continue
            ls = text.rfind('\n', 0, fi) + 1
            indent = text[ls:fi] + '    '
            new, n = _desugar_body(inner, indent)
            if n:
                text = text[:bo + 1] + new.rstrip() + '\n' + text[ls:fi] + text[bc:]
                total += n; changed = True
                break
        if not changed: break
    if total: log.add('R14', where, '%d `if .. { ..; continue; }` in for-loops' % total, 'if .. { .. } else { rest of the loop body }')
    return text

def _assign_end(text, rhs0):
    """end of the right-hand side of an assignment that starts at rhs0: the `;` at depth 0, or -- when the assignment is the tail of its
    block (no `;`) -- the position of the enclosing closing brace.  Returns (index, is_tail)."""
    j, n = rhs0, len(text)
    while j < n:
        k = L.skip_trivia_and_literals(text, j)
        if k != j: j = k; continue
        c = text[j]
        if c in L.OPEN: j = L.match_close(text, j) + 1; continue
        if c == ';': return j, False
        if c in ')}]':
            e = j
            while e > rhs0 and text[e - 1] in ' \t\n': e -= 1
            return e, True
        j += 1
    raise ValueError('no end of assignment')

def ndarray_index(text, names, log, where):
    """R17: ndarray `Index`/`IndexMut` sugar on the arrays `names` (declared as Array1/Array2 in the function) becomes explicit
    accessor calls of the stand-in:   X[(i, j)] = E;  =>  let vx_tmp = E; X.vx_set(i, j, vx_tmp);      X[(i, j)]  =>  (*X.vx_at(i, j))
    (same for one index).  Evaluation order is unchanged (the right-hand side is evaluated before the store, as in Rust)."""
    pat = re.compile(r'\b(' + '|'.join(map(re.escape, names)) + r')\[')
    n_w = n_r = 0
    # writes first (statement level), from the end of the text backwards
    while True:
        hit = None
        for i in L.code_positions(text):
            m = pat.match(text, i)
            if not m or (i > 0 and (text[i-1].isalnum() or text[i-1] in '_.')): continue
            br = m.end() - 1
            bc = L.match_close(text, br)
            mm = re.match(r'\s*=(?!=)\s*', text[bc + 1:])
            if mm: hit = (i, m.group(1), br, bc, bc + 1 + len(mm.group(0)))
        if hit is None: break
        i, name, br, bc, rhs0 = hit
        e, tail = _assign_end(text, rhs0)
        idx = text[br + 1:bc].strip()
        if idx.startswith('(') and idx.endswith(')'): idx = idx[1:-1].strip()
        ls = text.rfind('\n', 0, i) + 1
        ind = text[ls:i]
        rhs = text[rhs0:e].rstrip()
        text = text[:i] + 'let vx_tmp = ' + rhs + ';\n' + ind + '%s.vx_set(%s, vx_tmp);' % (name, idx) + ('\n' + text[e:] if tail else text[e + 1:])
        n_w += 1
    # reads
    while True:
        hit = None
        for i in L.code_positions(text):
            m = pat.match(text, i)
            if not m or (i > 0 and (text[i-1].isalnum() or text[i-1] in '_.')): continue
            hit = (i, m.group(1), m.end() - 1); break
        if hit is None: break
        i, name, br = hit
        bc = L.match_close(text, br)
        idx = text[br + 1:bc].strip()
        if idx.startswith('(') and idx.endswith(')'): idx = idx[1:-1].strip()
        text = text[:i] + '(*%s.vx_at(%s))' % (name, idx) + text[bc + 1:]
        n_r += 1
    if n_w or n_r: log.add('R17', where, '%d indexed stores, %d indexed loads on %s' % (n_w, n_r, '/'.join(names)), 'vx_set / vx_at of the ndarray stand-in')
    return text

def _split_args(s):
    """top-level comma split of a macro argument list"""
    out, depth, i, start, n = [], 0, 0, 0, len(s)
    while i < n:
        k = L.skip_trivia_and_literals(s, i)
        if k != i: i = k; continue
        c = s[i]
        if c in '([{': depth += 1
        elif c in ')]}': depth -= 1
        elif c == ',' and depth == 0:
            out.append(s[start:i].strip()); start = i + 1
        i += 1
    if s[start:].strip(): out.append(s[start:].strip())
    return out

def _fmt_parts(lit):
    """lit = source text of a normal string literal (with quotes).  Returns [('lit', source-text) | ('hole', spec)] or None."""
    if not (lit.startswith('"') and lit.endswith('"')): return None
    body, parts, cur, i = lit[1:-1], [], '', 0
    while i < len(body):
        c = body[i]
        if c == '\\':
            if body.startswith('\\u{', i):
                j = body.find('}', i); cur += body[i:j + 1]; i = j + 1; continue
            cur += body[i:i + 2]; i += 2; continue
        if c == '{':
            if body.startswith('{{', i): cur += '{'; i += 2; continue
            j = body.find('}', i)
            if j < 0: return None
            if cur: parts.append(('lit', cur)); cur = ''
            parts.append(('hole', body[i + 1:j])); i = j + 1; continue
        if c == '}':
            if body.startswith('}}', i): cur += '}'; i += 2; continue
            return None
        cur += c; i += 1
    if cur: parts.append(('lit', cur))
    return parts

def expand_format_macros(text, log, where):
    """R16: format!/write! with `{}` holes become explicit concatenations over the formatting model (spec/fmt_model.rs)."""
    n = 0
    while True:
        hit = None
        for i in L.code_positions(text):
            for mac in ('format!(', 'write!('):
                if text.startswith(mac, i) and (i == 0 or not (text[i-1].isalnum() or text[i-1] == '_')):
                    hit = (i, mac)          # keep the LAST occurrence: innermost / rightmost first
        if hit is None: break
        i, mac = hit
        po = i + len(mac) - 1
        pc = L.match_close(text, po)
        args = _split_args(text[po + 1:pc])
        target = None
        if mac == 'write!(':
            target, args = args[0], args[1:]
        parts = _fmt_parts(args[0]) if args else None
        holes = [p for p in (parts or []) if p[0] == 'hole']
        if parts is None or any(h[1] != '' for h in holes) or len(holes) != len(args) - 1 or len(parts) > 9 or not parts:
            # outside the model: neutralise the macro name so that the loop terminates; Verus will reject it (UNDECIDED)
            text = text[:i] + 'vx_unsupported_' + text[i:]
            continue
        it = iter(args[1:])
        rendered = ['vx_lit("%s")' % p[1] if p[0] == 'lit' else '(%s).vx_show()' % next(it) for p in parts]
        expr = rendered[0] if len(rendered) == 1 else 'vx_concat%d(%s)' % (len(rendered), ', '.join(rendered))
        if target is not None: expr = '%s.vx_write(%s)' % (target, expr)
        text = text[:i] + expr + text[pc + 1:]
        n += 1
    text2 = re.sub(r'\.to_string\(\)', '.vx_show()', text)
    if n or text2 != text: log.add('R16', where, '%d format!/write! macros, %d to_string() calls' % (n, text.count('.to_string()')), 'concatenation over the formatting model (vx_lit / vx_show / vx_concatN / vx_write)')
    return text2

def desugar_enumerate(text, log, where):
    """R22: `for (I, X) in E.iter().enumerate() {`  =>  `for I in 0..E.len() {` + `let X = &E[I];` (Verus has no spec for Enumerate)."""
    n = [0]
    def rep(m):
        n[0] += 1
        ind = m.group(1)
        return '%sfor %s in 0..%s.len() {\n%s    let %s = &%s[%s];' % (ind, m.group(2), m.group(4), ind, m.group(3), m.group(4), m.group(2))
    new = re.sub(r'(?m)^([ \t]*)for \((\w+), (\w+)\) in (\w+)\.iter\(\)\.enumerate\(\) \{$', rep, text)
    if n[0]: log.add('R22', where, '%d `for (i, x) in v.iter().enumerate()`' % n[0], 'for i in 0..v.len() { let x = &v[i]; .. }')
    return new

def desugar_iter_mut(text, log, where):
    """R24: loops over `iter_mut()` (no spec in vstd) become index loops over the same vector, element by element, in order:
         `for X in E.iter_mut() {`                                   =>  `let vx_vK = &mut E; for vx_kK in 0..vx_vK.len() { let X = &mut vx_vK[vx_kK];`
         `E.iter_mut().for_each(|X| { B });`                          =>  `let vx_vK = E; for vx_kK in 0..vx_vK.len() { let X = &mut vx_vK[vx_kK]; B }`
         `E.iter_mut().filter(|P| C).for_each(|X| { B });`            =>  the same with `if { let P = &*X; C } { B }` as the loop body
       (`E` a place expression gets `&mut`, a call returning `&mut Vec<_>` is bound as it is).  Any other adapter is left alone (Verus rejects it: UNDECIDED)."""
    n = [0]
    def bind(e):
        e = re.sub(r'\s+', '', e) if '\n' in e else e.strip()
        return e if e.endswith(')') else '&mut ' + e
    def rep_for(m):
        n[0] += 1; k = n[0]; ind = m.group(1)
        return '%slet vx_v%d = %s;\n%sfor vx_k%d in 0..vx_v%d.len() {\n%s    let %s = &mut vx_v%d[vx_k%d];' % (ind, k, bind(m.group(3)), ind, k, k, ind, m.group(2), k, k)
    text = re.sub(r'(?m)^([ \t]*)for (\w+) in (.+?)\.iter_mut\(\) \{$', rep_for, text)
    while True:
        m = re.search(r'(?m)^([ \t]*)([\w.()\s]+?)\s*\.iter_mut\(\)\s*(?:\.filter\(\|(\w+)\| )?', text)
        if not m: break
        ind, e, p = m.group(1), m.group(2), m.group(3)
        j = m.end()
        cond = None
        if p:
            pc = L.match_close(text, text.rfind('(', 0, m.end() - len('|%s| ' % p)))
            cond = text[m.end():pc].strip()
            j = pc + 1
        mm = re.match(r'\s*\.for_each\(\|(\w+)\| ', text[j:])
        if not mm: break
        po = j + text[j:].index('(')
        pc = L.match_close(text, po)
        body = text[j + mm.end():pc].strip()
        if not (body.startswith('{') and body.endswith('}')): body = '{ ' + body + '; }'
        tail = text[pc + 1:]
        if not tail.startswith(';'): break
        n[0] += 1; k = n[0]; x = mm.group(1)
        inner = body if cond is None else '{ if { let %s = &*%s; %s } %s }' % (p, x, cond, body)
        new = '%slet vx_v%d = %s;\n%sfor vx_k%d in 0..vx_v%d.len() {\n%s    let %s = &mut vx_v%d[vx_k%d];\n%s    %s\n%s}' % (ind, k, bind(e), ind, k, k, ind, x, k, k, ind, inner, ind)
        text = text[:m.start()] + new + tail[1:]
    if n[0]: log.add('R24', where, '%d loop(s) over iter_mut()' % n[0], 'let v = E; for k in 0..v.len() { let x = &mut v[k]; .. }')
    return text

# R27: HashSet / Vec iterator idioms of dfa.rs::minimize, each mapped to a specified stand-in (spec/minimize.rs); passed as extra rules by unit `minimize` only
SET_RULES = [
    ('R27', r'\b(\w+)\.iter\(\)\.cloned\(\)\.collect_vec\(\)', r'vx_cloned_vec(&\1)', 'iter().cloned().collect_vec(): element-wise copy of a Vec<HashSet<_>>'),
    ('R27', r'\b(\w+)\.drain\(0\.\.1\)\.next\(\)\.unwrap\(\)', r'vx_take_first(&mut \1)', 'drain(0..1).next().unwrap(): removes and returns the first element (requires a non-empty vector)'),
    ('R27', r'\b(\w+)\.intersection\((&?\w+)\)\.copied\(\)\.collect::<HashSet<State>>\(\)', r'vx_inter(&\1, \2)', 'HashSet::intersection(..).copied().collect(): the set intersection'),
    ('R27', r'\b(\w+)\.difference\((&?\w+)\)\.copied\(\)\.collect::<HashSet<State>>\(\)', r'vx_diff(&\1, \2)', 'HashSet::difference(..).copied().collect(): the set difference'),
    ('R27', r'\b(\w+)\.intersection\((&?\w+)\)\.count\(\)', r'vx_inter_count(&\1, \2)', 'HashSet::intersection(..).count(): size of the intersection'),
    ('R27', r'\b(\w+)\.difference\((&?\w+)\)\.count\(\)', r'vx_diff_count(&\1, \2)', 'HashSet::difference(..).count(): size of the difference'),
    ('R27', r'\b(\w+)\.iter\(\)\.position\(\|it\| it == &(\w+)\)', r'vx_position_set(&\1, &\2)', 'iter().position(|it| it == &y): index of the first element equal to y'),
    ('R27', r'\b(\w+)\.iter\(\)\.filter\(\|&it\| !it\.is_empty\(\)\)\.collect_vec\(\)', r'vx_nonempty_refs(&\1)', 'iter().filter(|&it| !it.is_empty()).collect_vec(): references to the non-empty elements, in order'),
    ('R27', r'\b(w)\.contains\(&(\w+)\)', r'vx_contains_set(&\1, &\2)', 'Vec<HashSet<_>>::contains: some element is equal (as a set)'),
]

def desugar_for_patterns(text, log, where):
    """R28: `for` loops whose pattern or iterator Verus does not take, rewritten to the same traversal:
         `for (I, X) in E.iter().enumerate().skip(S) {`  =>  `for I in S..E.len() {` + `let X = &E[I];`
         `for (A, B, ..) in E {`                           =>  `for vx_tK in E {` + `let (A, B, ..) = vx_tK;`
         `for &X in E {`                                   =>  `for vx_rK in E.iter() {` + `let X = *vx_rK;`"""
    n = [0]
    def skip(m):
        n[0] += 1; ind = m.group(1)
        return '%sfor %s in %s..%s.len() {\n%s    let %s = &%s[%s];' % (ind, m.group(2), m.group(5), m.group(4), ind, m.group(3), m.group(4), m.group(2))
    text = re.sub(r'(?m)^([ \t]*)for \((\w+), (\w+)\) in (\w+)\.iter\(\)\.enumerate\(\)\.skip\((\w+)\) \{$', skip, text)
    def tup(m):
        n[0] += 1; ind = m.group(1)
        return '%sfor vx_t%d in %s {\n%s    let (%s) = vx_t%d;' % (ind, n[0], m.group(3), ind, m.group(2), n[0])
    text = re.sub(r'(?m)^([ \t]*)for \(([\w, ]+)\) in (\w+) \{$', tup, text)
    def deref(m):
        n[0] += 1; ind = m.group(1)
        return '%sfor vx_r%d in %s.iter() {\n%s    let %s = *vx_r%d;' % (ind, n[0], m.group(3), ind, m.group(2), n[0])
    text = re.sub(r'(?m)^([ \t]*)for &(\w+) in (\w+) \{$', deref, text)
    if n[0]: log.add('R28', where, '%d `for` loop pattern(s)' % n[0], 'index / tuple / deref binding moved into the loop body')
    return text

def annotate_let(text, log, where, name, ty):
    """R26: `let mut NAME = vec![];` gets the element type rustc infers from later statements written out (ghost code in loop invariants precedes
    the statement that fixes it); rustc checks the annotation."""
    new = re.sub(r'\blet mut %s = vec!\[\];' % re.escape(name), 'let mut %s: %s = vec![];' % (name, ty), text)
    if new != text: log.add('R26', where, 'let mut %s = vec![];' % name, 'let mut %s: %s = vec![];' % (name, ty))
    return new

def hoist_call_argument(text, log, where, call, name):
    """R29: `CALL(ARG);` => `let NAME = ARG; CALL(NAME);` (ARG is the only argument; evaluation order unchanged) so that ghost code can name the value."""
    i = L.find_code(text, call + '(')
    if i < 0: return text
    po = i + len(call)
    pc = L.match_close(text, po)
    if not text[pc + 1:].startswith(';'): return text
    ls = text.rfind('\n', 0, i) + 1
    ind = text[ls:i]
    arg = text[po + 1:pc]
    log.add('R29', where, '%s(%s);' % (call, arg[:40]), 'let %s = ..; %s(%s);' % (name, call, name))
    return text[:ls] + '%slet %s = %s;\n%s%s(%s);' % (ind, name, arg, ind, call, name) + text[pc + 2:]
