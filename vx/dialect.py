"""The closed rewrite table (DESIGN.md Appendix B). Every application is logged."""
import re
from . import rustlex as L

class Log(list):
    def add(self, rule, where, before, after):
        self.append({'rule': rule, 'where': where, 'before': before.strip()[:120], 'after': after.strip()[:120]})

def strip_attrs_and_docs(text, log, where):
    """R0: remove outer attributes (#[...], possibly multi-line), doc comments and plain line comments of an item."""
    out, i, n = [], 0, len(text)
    removed = 0
    while i < n:
        k = L.skip_trivia_and_literals(text, i)
        if k != i:
            seg = text[i:k]
            if seg.startswith('//'):      # line/doc comment: drop
                removed += 1
                # also drop preceding indentation on that line
                while out and out[-1] in ' \t': out.pop()
                i = k; continue
            out.append(seg); i = k; continue
        if text.startswith('#[', i) or text.startswith('#![', i):
            j = text.index('[', i)
            e = L.match_close(text, j)
            removed += 1
            while out and out[-1] in ' \t': out.pop()
            i = e + 1
            if i < n and text[i] == '\n': i += 1
            continue
        out.append(text[i]); i += 1
    if removed: log.add('R0', where, '%d attributes/comments' % removed, 'removed')
    return ''.join(out)

def widen_visibility(text, log, where):
    """R10: pub(crate)/pub(super) -> pub; bare struct fields -> pub (single-file crate)."""
    new = re.sub(r'\bpub\((?:crate|super)\) ', 'pub ', text)
    if new != text: log.add('R10', where, 'pub(crate)', 'pub')
    return new

def pub_fields(struct_text, log, where):
    def fix(m):
        return m.group(1) + 'pub ' + m.group(2)
    new = re.sub(r'^(\s+)((?!pub\b)[a-z_][a-z0-9_]*\s*:)', fix, struct_text, flags=re.M)
    if new != struct_text: log.add('R10', where, 'private field', 'pub field')
    return new

RULES = [
    # (id, regex, replacement, assumed semantics)
    ('R3',  r"\(\s*('(?:\\u\{[0-9a-fA-F]+\}|\\.|[^'\\])')\s*\.\.=\s*('(?:\\u\{[0-9a-fA-F]+\}|\\.|[^'\\])')\s*\)\s*\.contains\(\s*&(\w+)\s*\)", r"vx_range_contains(\1, \2, true, &\3)", 'RangeInclusive<char>::contains'),
    ('R3',  r"\(\s*('(?:\\u\{[0-9a-fA-F]+\}|\\.|[^'\\])')\s*\.\.\s*('(?:\\u\{[0-9a-fA-F]+\}|\\.|[^'\\])')\s*\)\s*\.contains\(\s*&(\w+)\s*\)", r"vx_range_contains(\1, \2, false, &\3)", 'Range<char>::contains'),
    ('R8',  r"\b(\w+)\.escape_unicode\(\)\.to_string\(\)", r"vx_escape_unicode(\1)", 'char::escape_unicode rendering (uninterpreted)'),
    ('R5',  r"\b(\w+)\.chars\(\)\.count\(\)", r"vx_char_count(&\1)", 'str::chars().count() = number of scalar values'),
    ('R6',  r"\bpanic!\s*\((?:[^()]|\([^()]*\))*\)", r"vx_unreachable_panic()", 'panic! is a call with `requires false`'),
]

def apply_rules(text, log, where, extra=()):
    for rid, pat, rep, sem in list(RULES) + list(extra):
        def sub(m, rid=rid, rep=rep):
            new = m.expand(rep)
            log.add(rid, where, m.group(0), new)
            return new
        text = re.sub(pat, sub, text)
    return text
