"""Kani engine for C09: the three table look-ups of cluster.rs, real code, harness appended to a scratch copy."""
import os, re, shutil, subprocess, tempfile, time
HERE = os.path.dirname(os.path.abspath(__file__)); ROOT = os.path.dirname(HERE)

def table_len(repo, f, const):
    s = open(os.path.join(repo, 'src/unicode_tables', f)).read()
    m = re.search(r'\bconst\s+' + const + r'\s*:[^=]*=\s*&\[', s)
    body = s[m.end():s.index('];', m.end())]
    return len(re.findall(r"\(\s*'", body))

def run_harness(work, target, name, timeout):
    env = dict(os.environ, CARGO_NET_OFFLINE='true', CARGO_TARGET_DIR=target)
    t0 = time.time()
    cmd = ['cargo', 'kani', '--lib', '--no-default-features', '--harness', name, '--output-format', 'terse']
    try:
        p = subprocess.run(cmd, cwd=work, env=env, capture_output=True, text=True, timeout=timeout)
        out = p.stdout + '\n' + p.stderr
    except subprocess.TimeoutExpired as e:
        return {'status': 'timeout', 'detail': 'no result within %d s' % timeout, 'wall_s': round(time.time() - t0, 1), 'log': ''}
    wall = round(time.time() - t0, 1)
    tail = '\n'.join(l for l in out.splitlines() if '.rlib' not in l and not l.startswith('   Compiling'))[-4000:]
    if 'VERIFICATION:- SUCCESSFUL' in out:
        m = re.search(r'Verification Time: ([0-9.]+)s', out)
        return {'status': 'proved', 'detail': 'VERIFICATION SUCCESSFUL', 'cbmc_s': float(m.group(1)) if m else None, 'wall_s': wall, 'log': tail}
    if 'VERIFICATION:- FAILED' in out:
        fails = re.findall(r'Failed Checks: (.*)', out)
        unwind = any('unwinding assertion' in f for f in fails)
        real = [f for f in fails if 'unwinding assertion' not in f]
        if real: return {'status': 'failed', 'detail': '; '.join(real[:3]), 'wall_s': wall, 'log': tail}
        if unwind: return {'status': 'tool', 'detail': 'unwinding bound too small (table grew?)', 'wall_s': wall, 'log': tail}
        return {'status': 'failed', 'detail': 'VERIFICATION FAILED', 'wall_s': wall, 'log': tail}
    return {'status': 'tool', 'detail': 'no verdict (rc=%s): %s' % (p.returncode, tail[-300:].replace('\n', ' | ')), 'wall_s': wall, 'log': tail}

def run(repo, tier, build_dir):
    """quick: digit + space look-ups (+ canary).  thorough: + the 771-range word look-up, run alone (about 37 min, 24 GB)."""
    work = tempfile.mkdtemp(prefix='vxkani_')
    target = os.path.join(build_dir, 'kani_target')
    res = {'harnesses': [], 'trusted': ['Kani 0.68 / CBMC 6.11 and the Rust-to-GOTO translation', 'lazy_static initialisation runs once before the first look-up (Kani executes the Once inline)',
                                          'termination is not checked by Kani; the loops are bounded by the constant table length (unwinding assertions on)']}
    try:
        shutil.copytree(os.path.join(repo, 'src'), os.path.join(work, 'src'))
        for f in ('Cargo.toml', 'Cargo.lock'): shutil.copy(os.path.join(repo, f), work)
        # benches/ is referenced by Cargo.toml ([[bench]]): provide the file so that cargo accepts the manifest
        os.makedirs(os.path.join(work, 'benches'), exist_ok=True)
        bsrc = os.path.join(repo, 'benches', 'benchmark.rs')
        if os.path.exists(bsrc): shutil.copy(bsrc, os.path.join(work, 'benches'))
        n = {'DIGIT': table_len(repo, 'decimal.rs', 'DECIMAL_NUMBER'), 'SPACE': table_len(repo, 'space.rs', 'WHITE_SPACE'), 'WORD': table_len(repo, 'word.rs', 'WORD')}
        h = open(os.path.join(HERE, 'kani_harness.rs')).read()
        for k, v in n.items(): h = h.replace('VX_UNWIND_' + k, str(v + 2))
        with open(os.path.join(work, 'src', 'cluster.rs'), 'a') as f: f.write(h)
        plan = [('vx_lookup_digit', 'is_digit(c) <=> c in DECIMAL_NUMBER, all scalar values', 900, True),
                ('vx_lookup_space', 'is_space(c) <=> c in WHITE_SPACE, all scalar values', 900, True),
                ('vx_canary_space', 'canary: `!is_space(c)` must be refuted', 900, True)]
        from concurrent.futures import ThreadPoolExecutor
        # first harness alone (it compiles the crate into the shared target dir), then the rest in parallel
        first = run_harness(work, target, plan[0][0], plan[0][2])
        with ThreadPoolExecutor(max_workers=3) as ex:
            rest = list(ex.map(lambda pl: run_harness(work, target, pl[0], pl[2]), plan[1:]))
        for pl, r in zip(plan, [first] + rest):
            r.update(name=pl[0], claim=pl[1], required=pl[3], table_ranges=n)
            if pl[0].startswith('vx_canary'):
                # a canary must fail; it is not an obligation
                ok = r['status'] == 'failed'
                r['status'] = 'canary_ok' if ok else 'canary_vacuous'
                r['required'] = not ok
                r['detail'] = 'refuted as it must be' if ok else 'NOT refuted: ' + r['detail']
            res['harnesses'].append(r)
        if tier == 'thorough':
            r = run_harness(work, target, 'vx_lookup_word', 75 * 60)
            r.update(name='vx_lookup_word', claim='is_word(c) <=> c in WORD (%d ranges), all scalar values' % n['WORD'], required=False)
            res['harnesses'].append(r)
        else:
            res['harnesses'].append({'name': 'vx_lookup_word', 'status': 'not_run', 'claim': 'is_word(c) <=> c in WORD (%d ranges): Kani needs about 37 min and 24 GB, thorough tier only; quick tier checks only that the three look-up functions have the same shape' % n['WORD'], 'detail': ''})
    except Exception as e:
        res['harnesses'].append({'name': 'kani-setup', 'status': 'tool', 'claim': 'Kani harnesses could be set up', 'detail': repr(e), 'required': True})
    finally:
        shutil.rmtree(work, ignore_errors=True)
    for h in res['harnesses']:
        if h['status'] in ('canary_ok',): h['status_note'] = 'vacuity guard'
    return res

if __name__ == '__main__':
    import json, sys
    print(json.dumps(run('/repo', sys.argv[1] if len(sys.argv) > 1 else 'quick', os.path.join(ROOT, 'build')), indent=1))
