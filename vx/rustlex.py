"""Minimal Rust lexer helpers: find matching delimiters while skipping comments, strings, chars, lifetimes."""
import re

def skip_trivia_and_literals(src, i):
    """If src[i:] starts a comment / string / char literal, return index just after it; else return i."""
    n = len(src)
    if src.startswith('//', i):
        j = src.find('\n', i)
        return n if j < 0 else j + 1
    if src.startswith('/*', i):
        depth, j = 1, i + 2
        while j < n and depth:
            if src.startswith('/*', j): depth += 1; j += 2
            elif src.startswith('*/', j): depth -= 1; j += 2
            else: j += 1
        return j
    # raw strings r"..", r#".."#, br#".."#
    m = re.match(r'b?r(#*)"', src[i:])
    if m and (i == 0 or not (src[i-1].isalnum() or src[i-1] == '_')):
        hashes = m.group(1)
        end = src.find('"' + hashes, i + len(m.group(0)))
        return n if end < 0 else end + 1 + len(hashes)
    if src[i] == '"' or (src.startswith('b"', i) and (i == 0 or not (src[i-1].isalnum() or src[i-1] == '_'))):
        j = i + (2 if src[i] == 'b' else 1)
        while j < n:
            if src[j] == '\\': j += 2; continue
            if src[j] == '"': return j + 1
            j += 1
        return n
    if src[i] == "'":
        # char literal or lifetime
        m = re.match(r"'(\\u\{[0-9a-fA-F_]+\}|\\x[0-9a-fA-F]{2}|\\.|[^\\'])'", src[i:])
        if m: return i + len(m.group(0))
        m = re.match(r"'[A-Za-z_][A-Za-z0-9_]*", src[i:])
        if m: return i + len(m.group(0))
        return i + 1
    return i

OPEN = {'{': '}', '(': ')', '[': ']'}

def match_close(src, i):
    """src[i] is an opening delimiter; return index of its matching closer."""
    assert src[i] in OPEN, (i, src[i:i+20])
    stack = [OPEN[src[i]]]
    j = i + 1
    n = len(src)
    while j < n:
        k = skip_trivia_and_literals(src, j)
        if k != j:
            j = k; continue
        c = src[j]
        if c in OPEN: stack.append(OPEN[c])
        elif c in ')}]':
            if not stack or c != stack[-1]:
                raise ValueError('unbalanced delimiters at %d' % j)
            stack.pop()
            if not stack: return j
        j += 1
    raise ValueError('unterminated delimiter from %d' % i)

def code_positions(src):
    """yield indices i of src that are code (not inside comment/string/char)."""
    j, n = 0, len(src)
    while j < n:
        k = skip_trivia_and_literals(src, j)
        if k != j:
            j = k; continue
        yield j
        j += 1

def find_code(src, needle, start=0):
    """first index >= start where needle occurs in code (not in comment/literal)."""
    j, n = start, len(src)
    while j < n:
        k = skip_trivia_and_literals(src, j)
        if k != j:
            j = k; continue
        if src.startswith(needle, j): return j
        j += 1
    return -1

def body_open(src, i):
    """from index i (start of an item header) find the '{' that opens its body: first '{' at paren/bracket depth 0."""
    j, n, depth = i, len(src), 0
    while j < n:
        k = skip_trivia_and_literals(src, j)
        if k != j:
            j = k; continue
        c = src[j]
        if c in '([': depth += 1
        elif c in ')]': depth -= 1
        elif c == '{' and depth == 0: return j
        elif c == ';' and depth == 0: return -1
        j += 1
    return -1

def stmt_end(src, i):
    """end (index of ';') of the statement starting at i, at delimiter depth 0."""
    j, n = i, len(src)
    while j < n:
        k = skip_trivia_and_literals(src, j)
        if k != j:
            j = k; continue
        c = src[j]
        if c in OPEN:
            j = match_close(src, j) + 1; continue
        if c == ';': return j
        j += 1
    raise ValueError('no statement end')
