"""Minimal Rust lexer helpers: find matching delimiters while skipping comments, strings, chars, lifetimes."""
import re

def skip_trivia_and_literals(src, i):
    """If src[i:] starts a comment / string / char literal, return index just after it; else return i."""
    n = len(src)
    if src.startswith('//', i):
        j = src.find('\n', i)
        return n if j < 0 else j + 1
    if src.startswith('/*', i):
        depth, j = 1, i + 2
        while j < n and depth:
            if src.startswith('/*', j): depth += 1; j += 2
            elif src.startswith('*/', j): depth -= 1; j += 2
            else: j += 1
        return j
    # raw strings r"..", r#".."#, br#".."#
    m = re.match(r'b?r(#*)"', src[i:])
    if m and (i == 0 or not (src[i-1].isalnum() or src[i-1] == '_')):
        hashes = m.group(1)
        end = src.find('"' + hashes, i + len(m.group(0)))
        return n if end < 0 else end + 1 + len(hashes)
    if src[i] == '"' or (src.startswith('b"', i) and (i == 0 or not (src[i-1].isalnum() or src[i-1] == '_'))):
        j = i + (2 if src[i] == 'b' else 1)
        while j < n:
            if src[j] == '\\': j += 2; continue
            if src[j] == '"': return j + 1
            j += 1
        return n
    if src[i] == "'":
        # char literal or lifetime
        m = re.match(r"'(\\u\{[0-9a-fA-F_]+\}|\\x[0-9a-fA-F]{2}|\\.|[^\\'])'", src[i:])
        if m: return i + len(m.group(0))
        m = re.match(r"'[A-Za-z_][A-Za-z0-9_]*", src[i:])
        if m: return i + len(m.group(0))
        return i + 1
    return i

OPEN = {'{': '}', '(': ')', '[': ']'}

def match_close(src, i):
    """src[i] is an opening delimiter; return index of its matching closer."""
    assert src[i] in OPEN, (i, src[i:i+20])
    stack = [OPEN[src[i]]]
    j = i + 1
    n = len(src)
    while j < n:
        k = skip_trivia_and_literals(src, j)
        if k != j:
            j = k; continue
        c = src[j]
        if c in OPEN: stack.append(OPEN[c])
        elif c in ')}]':
            if not stack or c != stack[-1]:
                raise ValueError('unbalanced delimiters at %d' % j)
            stack.pop()
            if not stack: return j
        j += 1
    raise ValueError('unterminated delimiter from %d' % i)

def code_positions(src):
    """yield indices i of src that are code (not inside comment/string/char)."""
    j, n = 0, len(src)
    while j < n:
        k = skip_trivia_and_literals(src, j)
        if k != j:
            j = k; continue
        yield j
        j += 1

def find_code(src, needle, start=0):
    """first index >= start where needle occurs in code (not in comment/literal)."""
    j, n = start, len(src)
    while j < n:
        k = skip_trivia_and_literals(src, j)
        if k != j:
            j = k; continue
        if src.startswith(needle, j): return j
        j += 1
    return -1

def body_open(src, i):
    """from index i (start of an item header) find the '{' that opens its body: first '{' at paren/bracket depth 0."""
    j, n, depth = i, len(src), 0
    while j < n:
        k = skip_trivia_and_literals(src, j)
        if k != j:
            j = k; continue
        c = src[j]
        if c in '([': depth += 1
        elif c in ')]': depth -= 1
        elif c == '{' and depth == 0: return j
        elif c == ';' and depth == 0: return -1
        j += 1
    return -1

def stmt_end(src, i):
    """end (index of ';') of the statement starting at i, at delimiter depth 0."""
    j, n = i, len(src)
    while j < n:
        k = skip_trivia_and_literals(src, j)
        if k != j:
            j = k; continue
        c = src[j]
        if c in OPEN:
            j = match_close(src, j) + 1; continue
        if c == ';': return j
        j += 1
    raise ValueError('no statement end')

BLOCK_KW = ('if ', 'if(', 'for ', 'while ', 'loop ', 'loop{', 'match ', 'unsafe ', '{')

def split_stmts(body):
    """body = inner text of a block (without the enclosing braces).  Returns [(start, end)] of its top-level statements
    (the last one may be a tail expression without `;`)."""
    out, i, n = [], 0, len(body)
    while i < n:
        k = skip_trivia_and_literals(body, i)
        if k != i and (body.startswith('//', i) or body.startswith('/*', i)):
            i = k; continue
        if body[i] in ' \t\n\r':
            i += 1; continue
        start = i
        label = re.match(r"'[A-Za-z_][A-Za-z0-9_]*\s*:\s*", body[i:])
        j = i + (len(label.group(0)) if label else 0)
        if body.startswith(BLOCK_KW, j):
            # block-like expression statement: `if .. {..} else if .. {..} else {..}`, `for .. {..}`, `match .. {..}`, `{..}`
            while True:
                bo = j if body[j] == '{' else body_open(body, j)
                if bo < 0: raise ValueError('no block for statement at %d' % start)
                bc = match_close(body, bo)
                e = bc + 1
                m = re.match(r'\s*else\b\s*', body[e:])
                if m and body.startswith('if', j):
                    j = e + len(m.group(0))
                    if body[j] == '{':
                        bc = match_close(body, j); e = bc + 1; break
                    continue
                break
            # a trailing `;` or a method chain on the block value belongs to the statement
            m = re.match(r'[ \t]*;', body[e:])
            if m: e += len(m.group(0))
            elif re.match(r'\s*[.?]', body[e:]):
                try: e = stmt_end(body, e) + 1
                except ValueError: e = n
            out.append((start, e)); i = e; continue
        try:
            e = stmt_end(body, i) + 1
        except ValueError:
            e = n
            while e > i and body[e - 1] in ' \t\n\r': e -= 1
        out.append((start, e)); i = e
    return out

def find_for_loops(text):
    """[(for_index, body_open, body_close)] of every `for PAT in EXPR {` loop in text, outermost first."""
    out = []
    for i in code_positions(text):
        if text.startswith('for ', i) and (i == 0 or not (text[i-1].isalnum() or text[i-1] == '_')):
            bo = body_open(text, i)
            if bo < 0: continue
            if ' in ' not in text[i:bo]: continue      # `for<'a>` bounds etc.
            out.append((i, bo, match_close(text, bo)))
    return out
