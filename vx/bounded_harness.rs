// ---- appended by /verif/vx/bounded.py to a scratch copy of src/cluster.rs (never to /repo) ----
// BOUNDED stand-in (never counted as proved) for the contract that unit `repeats` ASSUMES of the detection stage
// (collect_repeated_substrings -> create_ranges_of_repetitions -> coalesce_repetitions): `detection_ok`.
// Every list of plain graphemes over a small alphabet up to a stated length, three threshold settings.
#[cfg(test)]
mod vx_bounded {
    use super::*;

    fn detection_ok(c: &[(Range<usize>, Vec<String>)], gs: &[Grapheme], min_rep: u32) -> Result<(), String> {
        for (k, (range, substr)) in c.iter().enumerate() {
            if !(range.start <= range.end && range.end <= gs.len()) { return Err(format!("range {:?} outside the input", range)); }
            if substr.is_empty() { return Err("empty unit".to_string()); }
            if 2 * substr.len() > gs.len() { return Err(format!("unit {:?} longer than half the input", substr)); }
            if (range.end - range.start) / substr.len() <= min_rep as usize { return Err(format!("range {:?} repeats the unit {:?} no more often than the minimum {}", range, substr, min_rep)); }
            if (range.end - range.start) % substr.len() != 0 { return Err(format!("range {:?} is not a multiple of the unit {:?}", range, substr)); }
            for j in range.clone() {
                if gs[j].value() != substr[(j - range.start) % substr.len()] { return Err(format!("range {:?} does not spell the unit {:?}", range, substr)); }
            }
            for (l, (later, _)) in c.iter().enumerate() {
                if k < l && later.end > range.start { return Err(format!("ranges {:?} and {:?} are not in descending order without overlap", range, later)); }
            }
        }
        Ok(())
    }

    fn words(alphabet: &[&str], max_len: usize) -> Vec<Vec<String>> {
        let mut all: Vec<Vec<String>> = vec![vec![]];
        let mut last: Vec<Vec<String>> = vec![vec![]];
        for _ in 0..max_len {
            let mut next = vec![];
            for w in &last { for a in alphabet { let mut v = w.clone(); v.push(a.to_string()); next.push(v); } }
            all.extend(next.iter().cloned());
            last = next;
        }
        all
    }

    fn run(alphabet: &[&str], max_len: usize) -> usize {
        let mut n = 0;
        for (min_rep, min_len) in [(1u32, 1u32), (2, 1), (1, 2)] {
            let mut config = RegExpConfig::new();
            config.is_repetition_converted = true;
            config.minimum_repetitions = min_rep;
            config.minimum_substring_length = min_len;
            for w in words(alphabet, max_len) {
                let gs: Vec<Grapheme> = w.iter().map(|s| Grapheme::from(s, false, false, false)).collect();
                let detected = coalesce_repetitions(create_ranges_of_repetitions(collect_repeated_substrings(&gs), &config));
                // a second run builds a second HashMap (std gives every RandomState its own keys): the ranges must not depend on the hash order (C10)
                let detected_again = coalesce_repetitions(create_ranges_of_repetitions(collect_repeated_substrings(&gs), &config));
                if detected != detected_again { panic!("VX-BOUNDED-FAIL kind=symbols input={:?} min_rep={} min_len={}: the detected ranges depend on the hash order: {:?} vs {:?}", w, min_rep, min_len, detected, detected_again); }
                // the whole conversion on the same input: what comes out must stand for the same symbols (flattened)
                let converted = std::panic::catch_unwind(|| { let mut out = vec![]; convert_repetitions(&gs, &mut out, &config); out });
                let out = match converted { Ok(out) => out, Err(_) => panic!("VX-BOUNDED-FAIL kind=symbols input={:?} min_rep={} min_len={}: convert_repetitions panicked", w, min_rep, min_len) };
                if !out.is_empty() {
                    fn flat(g: &Grapheme, acc: &mut Vec<String>) {
                        for _ in 0..g.minimum() {
                            if g.repetitions.is_empty() { acc.extend(g.chars().iter().cloned()); } else { for r in &g.repetitions { flat(r, acc); } }
                        }
                    }
                    let mut acc = vec![];
                    for g in &out { if g.minimum() != g.maximum() { panic!("VX-BOUNDED-FAIL kind=symbols input={:?} min_rep={} min_len={}: a range count straight out of the conversion", w, min_rep, min_len); } flat(g, &mut acc); }
                    if acc != w { panic!("VX-BOUNDED-FAIL kind=symbols input={:?} min_rep={} min_len={}: stands for {:?}", w, min_rep, min_len, acc); }
                }
                if let Err(e) = detection_ok(&detected, &gs, min_rep) {
                    panic!("VX-BOUNDED-FAIL kind=assumption input={:?} min_rep={} min_len={}: {}", w, min_rep, min_len, e);
                }
                n += 1;
            }
        }
        n
    }

    #[test]
    fn vx_bounded_detection_two_letters() { println!("VX-BOUNDED-OK inputs={}", run(&["a", "b"], VX_LEN2)); }
    #[test]
    fn vx_bounded_detection_three_letters() { println!("VX-BOUNDED-OK inputs={}", run(&["a", "b", "c"], VX_LEN3)); }
}
