import json, re, subprocess, time, os
VERIF_ERR = ('postcondition not satisfied', 'precondition not satisfied', 'invariant not satisfied', 'assertion failed',
             'decreases not satisfied', 'recommendation not met', 'possible arithmetic underflow/overflow', 'possible division by zero',
             'loop invariant', 'cannot show', 'could not prove', 'possible bit shift', 'unable to prove post-condition of closure', 'unable to prove pre-condition of closure')
def run(path, timeout=600, rlimit=None):
    cmd = ['verus', path, '--output-json', '--time', '--multiple-errors', '50']
    if rlimit: cmd += ['--rlimit', str(rlimit)]
    t0 = time.time()
    try:
        p = subprocess.run(['timeout', str(timeout)] + cmd, capture_output=True, text=True)
    except Exception as e:
        return {'status': 'tool_error', 'detail': str(e)}
    wall = time.time() - t0
    out = {'cmd': ' '.join(cmd), 'wall_s': wall, 'returncode': p.returncode, 'stderr': p.stderr}
    try:
        j = json.loads(p.stdout[p.stdout.index('{'):])
    except Exception:
        j = None
    out['json'] = j
    # diagnostics from stderr
    diags = []
    cur = None
    for ln in p.stderr.splitlines():
        m = re.match(r'^(error|warning|note)(\[[A-Z0-9]+\])?: (.*)$', ln)
        if m:
            cur = {'level': m.group(1), 'code': m.group(2), 'msg': m.group(3), 'spans': []}
            diags.append(cur); continue
        m = re.match(r'^\s*--> ([^:]+):(\d+):(\d+)', ln)
        if m and cur is not None:
            cur['spans'].append((m.group(1), int(m.group(2)), int(m.group(3))))
            cur['_file'] = m.group(1)
            continue
        # labelled source lines of the snippet: `456 |   return x;` followed by `    |   -------- at this exit`
        m = re.match(r'^\s*(\d+) \|', ln)
        if m and cur is not None:
            cur['_last_line'] = int(m.group(1))
            cur.setdefault('shown_lines', []).append(int(m.group(1)))
            continue
        m = re.match(r'^\s*\| .*?[-^]+ (\S.*)$', ln)
        if m and cur is not None and cur.get('_last_line'):
            cur.setdefault('labels', []).append((cur['_last_line'], m.group(1).strip()))
    out['diags'] = diags
    errs = [d for d in diags if d['level'] == 'error' and not d['msg'].startswith('aborting due to')]
    out['errors'] = errs
    def is_verif(d): return any(k in d['msg'] for k in VERIF_ERR)
    out['verif_errors'] = [d for d in errs if is_verif(d)]
    out['other_errors'] = [d for d in errs if not is_verif(d)]
    if p.returncode == 124: out['status'] = 'timeout'
    elif j is None and not errs: out['status'] = 'tool_error'
    elif out['other_errors']: out['status'] = 'undecided'
    elif out['verif_errors']: out['status'] = 'failed'
    elif j and j.get('verification-results', {}).get('success'): out['status'] = 'verified'
    else: out['status'] = 'undecided'
    return out
def map_errors(b, res, path):
    """map verification diagnostics to (function, clause label, props)."""
    out = []
    for d in res['verif_errors']:
        hit = None
        for (f, line, col) in d['spans']:
            if line in b.linemap:
                fn, label, props = b.linemap[line]
                hit = (fn, label, props); break
        if hit is None and 'invariant not satisfied' in d['msg']:
            # the primary span of an invariant that fails at a `break` is the break statement; the invariant itself is shown in the snippet
            for line in d.get('shown_lines', []):
                if line in b.linemap:
                    fn, label, props = b.linemap[line]
                    hit = (fn, label, props); break
        if hit is None:
            for (f, line, col) in d['spans']:
                for (a, z, fn, props, lab) in b.fn_ranges:
                    if a <= line <= z:
                        hit = (fn, lab, props); break
                if hit: break
        # the program point at which the obligation fails (exit / loop / call): text of the last span's line + its ordinal among
        # identical lines of the same function -- robust against line shifts, distinguishes two `return`s of one function
        site = None
        secondary = [l for l in d.get('labels', []) if not l[1].startswith('failed this')]
        if secondary and hit is not None:
            lines = b.lines
            ln = secondary[-1][0]
            if 1 <= ln <= len(lines):
                txt = lines[ln - 1].strip()
                rng = [(a, z) for (a, z, fn, props, lab) in b.fn_ranges if a <= ln <= z]
                a0 = rng[0][0] if rng else 1
                k = sum(1 for x in lines[a0 - 1:ln] if x.strip() == txt)
                site = '%s#%d' % (txt, k)
        out.append({'msg': d['msg'], 'spans': d['spans'], 'obligation': hit, 'site': site})
    return out
