// Stand-ins and lemmas of unit `minimize` (Dfa::minimize, Dfa::get_parent_states): std HashSet / Vec iterator idioms (R27) with the semantics
// their documentation states, and the partition algebra.
pub assume_specification<T: Clone, S: Clone, A: core::alloc::Allocator + Clone> [<HashSet<T, S, A> as Clone>::clone] (e: &HashSet<T, S, A>) -> (r: HashSet<T, S, A>) ensures r@ == e@;
#[verifier::external_body] pub fn vx_cloned_vec(p: &Vec<HashSet<State>>) -> (r: Vec<HashSet<State>>)
    ensures r@.len() == p@.len(), forall|k: int| 0 <= k < p@.len() ==> (#[trigger] r@[k])@ == p@[k]@ { unimplemented!() }
#[verifier::external_body] pub fn vx_take_first(w: &mut Vec<HashSet<State>>) -> (r: HashSet<State>)
    requires old(w)@.len() > 0 ensures r == old(w)@[0], final(w)@ == old(w)@.drop_first() { unimplemented!() }
#[verifier::external_body] pub fn vx_inter_count(x: &HashSet<State>, y: &HashSet<State>) -> (r: usize) ensures r == x@.intersect(y@).len() { unimplemented!() }
#[verifier::external_body] pub fn vx_diff_count(y: &HashSet<State>, x: &HashSet<State>) -> (r: usize) ensures r == y@.difference(x@).len() { unimplemented!() }
#[verifier::external_body] pub fn vx_inter(x: &HashSet<State>, y: &HashSet<State>) -> (r: HashSet<State>) ensures r@ == x@.intersect(y@) { unimplemented!() }
#[verifier::external_body] pub fn vx_diff(y: &HashSet<State>, x: &HashSet<State>) -> (r: HashSet<State>) ensures r@ == y@.difference(x@) { unimplemented!() }
#[verifier::external_body] pub fn vx_contains_set(w: &Vec<HashSet<State>>, y: &HashSet<State>) -> (r: bool) ensures r == exists|k: int| 0 <= k < w@.len() && (#[trigger] w@[k])@ == y@ { unimplemented!() }
#[verifier::external_body] pub fn vx_position_set(w: &Vec<HashSet<State>>, y: &HashSet<State>) -> (r: Option<usize>)
    ensures (r is Some) == (exists|k: int| 0 <= k < w@.len() && (#[trigger] w@[k])@ == y@), r is Some ==> r->Some_0 < w@.len() && w@[r->Some_0 as int]@ == y@ { unimplemented!() }
#[verifier::external_body] pub fn vx_nonempty_refs<'x>(p: &'x Vec<HashSet<State>>) -> (r: Vec<&'x HashSet<State>>)
    ensures exists|idx: Seq<int>| #[trigger] subseq_of(idx, r@, p@) { unimplemented!() }
// r is the subsequence of the non-empty elements of p (idx: the positions kept, increasing, none skipped)
pub open spec fn subseq_of(idx: Seq<int>, r: Seq<&HashSet<State>>, p: Seq<HashSet<State>>) -> bool {
    idx.len() == r.len() && (forall|k: int| 0 <= k < idx.len() ==> 0 <= #[trigger] idx[k] < p.len() && *r[k] == p[idx[k]] && p[idx[k]]@.len() > 0)
    && (forall|k: int, l: int| 0 <= k < l < idx.len() ==> idx[k] < idx[l])
    && (forall|j: int| 0 <= j < p.len() && p[j]@.len() > 0 ==> exists|k: int| 0 <= k < idx.len() && #[trigger] idx[k] == j)
}
pub open spec fn union_all(p: Seq<HashSet<State>>, k: int) -> Set<State> decreases k { if k <= 0 { Set::empty() } else { union_all(p, k - 1).union(p[k - 1]@) } }
// THE INVARIANT of the refinement loops: the blocks are pairwise disjoint and together they are exactly the states of the automaton
pub open spec fn partition(p: Seq<HashSet<State>>, nodes: Set<State>) -> bool {
    (forall|i: int, j: int| 0 <= i < j < p.len() ==> (#[trigger] p[i])@.disjoint((#[trigger] p[j])@))
    && union_all(p, p.len() as int) == nodes
}
pub proof fn lemma_union_all_char(p: Seq<HashSet<State>>, n: int)
    requires 0 <= n <= p.len()
    ensures forall|s: State| #[trigger] union_all(p, n).contains(s) <==> exists|j: int| 0 <= j < n && (#[trigger] p[j])@.contains(s)
    decreases n
{
    if n > 0 {
        lemma_union_all_char(p, n - 1);
        assert forall|s: State| #[trigger] union_all(p, n).contains(s) <==> exists|j: int| 0 <= j < n && (#[trigger] p[j])@.contains(s) by {
            if union_all(p, n).contains(s) {
                if p[n - 1]@.contains(s) { } else { assert(union_all(p, n - 1).contains(s)); let j = choose|j: int| 0 <= j < n - 1 && (#[trigger] p[j])@.contains(s); assert(0 <= j < n && p[j]@.contains(s)); }
            }
            if exists|j: int| 0 <= j < n && (#[trigger] p[j])@.contains(s) {
                let j = choose|j: int| 0 <= j < n && (#[trigger] p[j])@.contains(s);
                if j < n - 1 { assert(union_all(p, n - 1).contains(s)); }
            }
        }
    }
}
// replacing block k by (x ∩ block k, block k \ x) keeps a partition a partition -- whatever x is
pub proof fn lemma_split_keeps_partition(p0: Seq<HashSet<State>>, p1: Seq<HashSet<State>>, k: int, x: Set<State>, nodes: Set<State>)
    requires partition(p0, nodes), 0 <= k < p0.len(), p1.len() == p0.len() + 1,
        forall|j: int| 0 <= j < k ==> p1[j] == p0[j],
        (p1[k]@ == x.intersect(p0[k]@) && p1[k + 1]@ == p0[k]@.difference(x)) || (p1[k + 1]@ == x.intersect(p0[k]@) && p1[k]@ == p0[k]@.difference(x)),   // either order
        forall|j: int| k + 1 < j < p1.len() ==> p1[j] == p0[j - 1],
    ensures partition(p1, nodes)
{
    let src = |j: int| if j <= k { j } else { j - 1 };      // the block of p0 that block j of p1 comes from
    assert forall|j: int| 0 <= j < p1.len() implies (#[trigger] p1[j])@.subset_of(p0[src(j)]@) by { }
    assert forall|a: int, b: int| 0 <= a < b < p1.len() implies (#[trigger] p1[a])@.disjoint((#[trigger] p1[b])@) by {
        if src(a) == src(b) { assert(a == k && b == k + 1); }
        else { assert(p0[src(a)]@.disjoint(p0[src(b)]@)); }
    }
    lemma_union_all_char(p0, p0.len() as int);
    lemma_union_all_char(p1, p1.len() as int);
    assert forall|s: State| union_all(p1, p1.len() as int).contains(s) <==> nodes.contains(s) by {
        if union_all(p1, p1.len() as int).contains(s) {
            let j = choose|j: int| 0 <= j < p1.len() && (#[trigger] p1[j])@.contains(s);
            assert(p0[src(j)]@.contains(s));
        }
        if nodes.contains(s) {
            let j = choose|j: int| 0 <= j < p0.len() && (#[trigger] p0[j])@.contains(s);
            if j < k { assert(p1[j]@.contains(s)); }
            else if j == k { assert(p1[k]@.contains(s) || p1[k + 1]@.contains(s)); }
            else { assert(p1[j + 1] == p0[j]); assert(p1[j + 1]@.contains(s)); }
        }
    }
    assert(union_all(p1, p1.len() as int) =~= nodes);
}
pub proof fn lemma_union_upto_char(p: Seq<&HashSet<State>>, n: int)
    requires 0 <= n <= p.len()
    ensures forall|s: State| #[trigger] union_upto(p, n).contains(s) <==> exists|j: int| 0 <= j < n && (#[trigger] p[j])@.contains(s)
    decreases n
{
    if n > 0 {
        lemma_union_upto_char(p, n - 1);
        assert forall|s: State| #[trigger] union_upto(p, n).contains(s) <==> exists|j: int| 0 <= j < n && (#[trigger] p[j])@.contains(s) by {
            if union_upto(p, n).contains(s) {
                if p[n - 1]@.contains(s) { } else { assert(union_upto(p, n - 1).contains(s)); let j = choose|j: int| 0 <= j < n - 1 && (#[trigger] p[j])@.contains(s); assert(0 <= j < n && p[j]@.contains(s)); }
            }
            if exists|j: int| 0 <= j < n && (#[trigger] p[j])@.contains(s) {
                let j = choose|j: int| 0 <= j < n && (#[trigger] p[j])@.contains(s);
                if j < n - 1 { assert(union_upto(p, n - 1).contains(s)); }
            }
        }
    }
}
// dropping the empty blocks of a partition gives exactly what recreate_graph requires
pub proof fn lemma_filtered_partition(p: Seq<HashSet<State>>, r: Seq<&HashSet<State>>, nodes: Set<State>)
    requires partition(p, nodes), exists|idx: Seq<int>| #[trigger] subseq_of(idx, r, p)
    ensures pairwise_disjoint(r), union_upto(r, r.len() as int) == nodes, forall|j: int| 0 <= j < r.len() ==> (#[trigger] r[j])@.len() > 0
{
    let idx = choose|idx: Seq<int>| #[trigger] subseq_of(idx, r, p);
    assert forall|a: int, b: int| 0 <= a < b < r.len() implies (#[trigger] r[a])@.disjoint((#[trigger] r[b])@) by {
        assert(idx[a] < idx[b]); assert(*r[a] == p[idx[a]]); assert(*r[b] == p[idx[b]]);
        assert(p[idx[a]]@.disjoint(p[idx[b]]@));
    }
    lemma_union_all_char(p, p.len() as int);
    lemma_union_upto_char(r, r.len() as int);
    assert forall|s: State| union_upto(r, r.len() as int).contains(s) <==> nodes.contains(s) by {
        if union_upto(r, r.len() as int).contains(s) {
            let j = choose|j: int| 0 <= j < r.len() && (#[trigger] r[j])@.contains(s);
            assert(*r[j] == p[idx[j]]); assert(p[idx[j]]@.contains(s));
        }
        if nodes.contains(s) {
            let j = choose|j: int| 0 <= j < p.len() && (#[trigger] p[j])@.contains(s);
            assert(p[j]@.len() > 0) by { if p[j]@.len() == 0 { assert(p[j]@ =~= Set::empty()); } }
            let k = choose|k: int| 0 <= k < idx.len() && #[trigger] idx[k] == j;
            assert(*r[k] == p[idx[k]]); assert(r[k]@.contains(s));
        }
    }
    assert(union_upto(r, r.len() as int) =~= nodes);
    assert forall|j: int| 0 <= j < r.len() implies (#[trigger] r[j])@.len() > 0 by { assert(*r[j] == p[idx[j]]); }
}
