// Stand-ins and lemmas of unit `minimize` (Dfa::minimize, Dfa::get_parent_states): std HashSet / Vec iterator idioms (R27) with the semantics
// their documentation states, and the partition algebra.
pub assume_specification<T: Clone, S: Clone, A: core::alloc::Allocator + Clone> [<HashSet<T, S, A> as Clone>::clone] (e: &HashSet<T, S, A>) -> (r: HashSet<T, S, A>) ensures r@ == e@;
#[verifier::external_body] pub fn vx_cloned_vec(p: &Vec<HashSet<State>>) -> (r: Vec<HashSet<State>>)
    ensures r@.len() == p@.len(), forall|k: int| 0 <= k < p@.len() ==> (#[trigger] r@[k])@ == p@[k]@ { unimplemented!() }
#[verifier::external_body] pub fn vx_take_first(w: &mut Vec<HashSet<State>>) -> (r: HashSet<State>)
    requires old(w)@.len() > 0 ensures r == old(w)@[0], final(w)@ == old(w)@.drop_first() { unimplemented!() }
#[verifier::external_body] pub fn vx_inter_count(x: &HashSet<State>, y: &HashSet<State>) -> (r: usize) ensures r == x@.intersect(y@).len() { unimplemented!() }
#[verifier::external_body] pub fn vx_diff_count(y: &HashSet<State>, x: &HashSet<State>) -> (r: usize) ensures r == y@.difference(x@).len() { unimplemented!() }
#[verifier::external_body] pub fn vx_inter(x: &HashSet<State>, y: &HashSet<State>) -> (r: HashSet<State>) ensures r@ == x@.intersect(y@) { unimplemented!() }
#[verifier::external_body] pub fn vx_diff(y: &HashSet<State>, x: &HashSet<State>) -> (r: HashSet<State>) ensures r@ == y@.difference(x@) { unimplemented!() }
#[verifier::external_body] pub fn vx_contains_set(w: &Vec<HashSet<State>>, y: &HashSet<State>) -> (r: bool) ensures r == exists|k: int| 0 <= k < w@.len() && (#[trigger] w@[k])@ == y@ { unimplemented!() }
#[verifier::external_body] pub fn vx_position_set(w: &Vec<HashSet<State>>, y: &HashSet<State>) -> (r: Option<usize>)
    ensures (r is Some) == (exists|k: int| 0 <= k < w@.len() && (#[trigger] w@[k])@ == y@), r is Some ==> r->Some_0 < w@.len() && w@[r->Some_0 as int]@ == y@ { unimplemented!() }
#[verifier::external_body] pub fn vx_nonempty_refs<'x>(p: &'x Vec<HashSet<State>>) -> (r: Vec<&'x HashSet<State>>)
    ensures exists|idx: Seq<int>| #[trigger] subseq_of(idx, r@, p@) { unimplemented!() }
// r is the subsequence of the non-empty elements of p (idx: the positions kept, increasing, none skipped)
pub open spec fn subseq_of(idx: Seq<int>, r: Seq<&HashSet<State>>, p: Seq<HashSet<State>>) -> bool {
    idx.len() == r.len() && (forall|k: int| 0 <= k < idx.len() ==> 0 <= #[trigger] idx[k] < p.len() && *r[k] == p[idx[k]] && p[idx[k]]@.len() > 0)
    && (forall|k: int, l: int| 0 <= k < l < idx.len() ==> idx[k] < idx[l])
    && (forall|j: int| 0 <= j < p.len() && p[j]@.len() > 0 ==> exists|k: int| 0 <= k < idx.len() && #[trigger] idx[k] == j)
}
pub open spec fn union_all(p: Seq<HashSet<State>>, k: int) -> Set<State> decreases k { if k <= 0 { Set::empty() } else { union_all(p, k - 1).union(p[k - 1]@) } }
// THE INVARIANT of the refinement loops: the blocks are pairwise disjoint and together they are exactly the states of the automaton
pub open spec fn partition(p: Seq<HashSet<State>>, nodes: Set<State>) -> bool {
    (forall|i: int, j: int| 0 <= i < j < p.len() ==> (#[trigger] p[i])@.disjoint((#[trigger] p[j])@))
    && union_all(p, p.len() as int) == nodes
}
pub proof fn lemma_union_all_char(p: Seq<HashSet<State>>, n: int)
    requires 0 <= n <= p.len()
    ensures forall|s: State| #[trigger] union_all(p, n).contains(s) <==> exists|j: int| 0 <= j < n && (#[trigger] p[j])@.contains(s)
    decreases n
{
    if n > 0 {
        lemma_union_all_char(p, n - 1);
        assert forall|s: State| #[trigger] union_all(p, n).contains(s) <==> exists|j: int| 0 <= j < n && (#[trigger] p[j])@.contains(s) by {
            if union_all(p, n).contains(s) {
                if p[n - 1]@.contains(s) { } else { assert(union_all(p, n - 1).contains(s)); let j = choose|j: int| 0 <= j < n - 1 && (#[trigger] p[j])@.contains(s); assert(0 <= j < n && p[j]@.contains(s)); }
            }
            if exists|j: int| 0 <= j < n && (#[trigger] p[j])@.contains(s) {
                let j = choose|j: int| 0 <= j < n && (#[trigger] p[j])@.contains(s);
                if j < n - 1 { assert(union_all(p, n - 1).contains(s)); }
            }
        }
    }
}
// replacing block k by (x ∩ block k, block k \ x) keeps a partition a partition -- whatever x is
pub proof fn lemma_split_keeps_partition(p0: Seq<HashSet<State>>, p1: Seq<HashSet<State>>, k: int, x: Set<State>, nodes: Set<State>)
    requires partition(p0, nodes), 0 <= k < p0.len(), p1.len() == p0.len() + 1,
        forall|j: int| 0 <= j < k ==> p1[j] == p0[j],
        (p1[k]@ == x.intersect(p0[k]@) && p1[k + 1]@ == p0[k]@.difference(x)) || (p1[k + 1]@ == x.intersect(p0[k]@) && p1[k]@ == p0[k]@.difference(x)),   // either order
        forall|j: int| k + 1 < j < p1.len() ==> p1[j] == p0[j - 1],
    ensures partition(p1, nodes)
{
    let src = |j: int| if j <= k { j } else { j - 1 };      // the block of p0 that block j of p1 comes from
    assert forall|j: int| 0 <= j < p1.len() implies (#[trigger] p1[j])@.subset_of(p0[src(j)]@) by { }
    assert forall|a: int, b: int| 0 <= a < b < p1.len() implies (#[trigger] p1[a])@.disjoint((#[trigger] p1[b])@) by {
        if src(a) == src(b) { assert(a == k && b == k + 1); }
        else { assert(p0[src(a)]@.disjoint(p0[src(b)]@)); }
    }
    lemma_union_all_char(p0, p0.len() as int);
    lemma_union_all_char(p1, p1.len() as int);
    assert forall|s: State| union_all(p1, p1.len() as int).contains(s) <==> nodes.contains(s) by {
        if union_all(p1, p1.len() as int).contains(s) {
            let j = choose|j: int| 0 <= j < p1.len() && (#[trigger] p1[j])@.contains(s);
            assert(p0[src(j)]@.contains(s));
        }
        if nodes.contains(s) {
            let j = choose|j: int| 0 <= j < p0.len() && (#[trigger] p0[j])@.contains(s);
            if j < k { assert(p1[j]@.contains(s)); }
            else if j == k { assert(p1[k]@.contains(s) || p1[k + 1]@.contains(s)); }
            else { assert(p1[j + 1] == p0[j]); assert(p1[j + 1]@.contains(s)); }
        }
    }
    assert(union_all(p1, p1.len() as int) =~= nodes);
}
pub proof fn lemma_union_upto_char(p: Seq<&HashSet<State>>, n: int)
    requires 0 <= n <= p.len()
    ensures forall|s: State| #[trigger] union_upto(p, n).contains(s) <==> exists|j: int| 0 <= j < n && (#[trigger] p[j])@.contains(s)
    decreases n
{
    if n > 0 {
        lemma_union_upto_char(p, n - 1);
        assert forall|s: State| #[trigger] union_upto(p, n).contains(s) <==> exists|j: int| 0 <= j < n && (#[trigger] p[j])@.contains(s) by {
            if union_upto(p, n).contains(s) {
                if p[n - 1]@.contains(s) { } else { assert(union_upto(p, n - 1).contains(s)); let j = choose|j: int| 0 <= j < n - 1 && (#[trigger] p[j])@.contains(s); assert(0 <= j < n && p[j]@.contains(s)); }
            }
            if exists|j: int| 0 <= j < n && (#[trigger] p[j])@.contains(s) {
                let j = choose|j: int| 0 <= j < n && (#[trigger] p[j])@.contains(s);
                if j < n - 1 { assert(union_upto(p, n - 1).contains(s)); }
            }
        }
    }
}
// dropping the empty blocks of a partition gives exactly what recreate_graph requires
pub proof fn lemma_filtered_partition(p: Seq<HashSet<State>>, r: Seq<&HashSet<State>>, nodes: Set<State>)
    requires partition(p, nodes), exists|idx: Seq<int>| #[trigger] subseq_of(idx, r, p)
    ensures pairwise_disjoint(r), union_upto(r, r.len() as int) == nodes, forall|j: int| 0 <= j < r.len() ==> (#[trigger] r[j])@.len() > 0
{
    let idx = choose|idx: Seq<int>| #[trigger] subseq_of(idx, r, p);
    assert forall|a: int, b: int| 0 <= a < b < r.len() implies (#[trigger] r[a])@.disjoint((#[trigger] r[b])@) by {
        assert(idx[a] < idx[b]); assert(*r[a] == p[idx[a]]); assert(*r[b] == p[idx[b]]);
        assert(p[idx[a]]@.disjoint(p[idx[b]]@));
    }
    lemma_union_all_char(p, p.len() as int);
    lemma_union_upto_char(r, r.len() as int);
    assert forall|s: State| union_upto(r, r.len() as int).contains(s) <==> nodes.contains(s) by {
        if union_upto(r, r.len() as int).contains(s) {
            let j = choose|j: int| 0 <= j < r.len() && (#[trigger] r[j])@.contains(s);
            assert(*r[j] == p[idx[j]]); assert(p[idx[j]]@.contains(s));
        }
        if nodes.contains(s) {
            let j = choose|j: int| 0 <= j < p.len() && (#[trigger] p[j])@.contains(s);
            assert(p[j]@.len() > 0) by { if p[j]@.len() == 0 { assert(p[j]@ =~= Set::empty()); } }
            let k = choose|k: int| 0 <= k < idx.len() && #[trigger] idx[k] == j;
            assert(*r[k] == p[idx[k]]); assert(r[k]@.contains(s));
        }
    }
    assert(union_upto(r, r.len() as int) =~= nodes);
    assert forall|j: int| 0 <= j < r.len() implies (#[trigger] r[j])@.len() > 0 by { assert(*r[j] == p[idx[j]]); }
}
// ---- accepting and non-accepting states are never put into one block (half of "the quotient accepts the same language") ----
pub open spec fn is_accepting(s: State, finals: Set<usize>) -> bool { finals.contains(s.ix as usize) }
pub open spec fn pure_block(b: Set<State>, finals: Set<usize>) -> bool { forall|a: State, c: State| #[trigger] b.contains(a) && #[trigger] b.contains(c) ==> is_accepting(a, finals) == is_accepting(c, finals) }
pub open spec fn pure(p: Seq<HashSet<State>>, finals: Set<usize>) -> bool { forall|k: int| 0 <= k < p.len() ==> pure_block((#[trigger] p[k])@, finals) }
pub open spec fn pure_refs(p: Seq<&HashSet<State>>, finals: Set<usize>) -> bool { forall|k: int| 0 <= k < p.len() ==> pure_block((#[trigger] p[k])@, finals) }
pub proof fn lemma_subset_of_pure_is_pure(a: Set<State>, b: Set<State>, finals: Set<usize>)
    requires a.subset_of(b), pure_block(b, finals)
    ensures pure_block(a, finals)
{
    assert forall|x: State, y: State| #[trigger] a.contains(x) && #[trigger] a.contains(y) implies is_accepting(x, finals) == is_accepting(y, finals) by { assert(b.contains(x) && b.contains(y)); }
}
// a split only refines: both halves are subsets of the block they come from
pub proof fn lemma_split_keeps_pure(p0: Seq<HashSet<State>>, p1: Seq<HashSet<State>>, k: int, x: Set<State>, finals: Set<usize>)
    requires pure(p0, finals), 0 <= k < p0.len(), p1.len() == p0.len() + 1,
        forall|j: int| 0 <= j < k ==> p1[j] == p0[j],
        (p1[k]@ == x.intersect(p0[k]@) && p1[k + 1]@ == p0[k]@.difference(x)) || (p1[k + 1]@ == x.intersect(p0[k]@) && p1[k]@ == p0[k]@.difference(x)),
        forall|j: int| k + 1 < j < p1.len() ==> p1[j] == p0[j - 1],
    ensures pure(p1, finals)
{
    assert forall|j: int| 0 <= j < p1.len() implies pure_block((#[trigger] p1[j])@, finals) by {
        let src = if j <= k { j } else { j - 1 };
        assert(pure_block(p0[src]@, finals));
        if j == k || j == k + 1 { assert(p1[j]@.subset_of(p0[k]@)); lemma_subset_of_pure_is_pure(p1[j]@, p0[k]@, finals); }
        else if j < k { assert(p1[j] == p0[j]); } else { assert(p1[j] == p0[j - 1]); }
    }
}
pub proof fn lemma_filtered_pure(p: Seq<HashSet<State>>, r: Seq<&HashSet<State>>, finals: Set<usize>)
    requires pure(p, finals), exists|idx: Seq<int>| #[trigger] subseq_of(idx, r, p)
    ensures pure_refs(r, finals)
{
    let idx = choose|idx: Seq<int>| #[trigger] subseq_of(idx, r, p);
    assert forall|k: int| 0 <= k < r.len() implies pure_block((#[trigger] r[k])@, finals) by { assert(*r[k] == p[idx[k]]); assert(pure_block(p[idx[k]]@, finals)); }
}
// the initial partition: one block holds exactly the states the closure of get_initial_partition answers `true` for
// `negated`: whether the closure asks for the NON-accepting states first (read off the closure text; either order separates the two kinds)
pub open spec fn first_block_test(s: State, finals: Set<usize>, negated: bool) -> bool { if negated { !finals.contains(s.ix as usize) } else { finals.contains(s.ix as usize) } }
pub proof fn lemma_initial_partition_is_pure(p: Seq<HashSet<State>>, finals: Set<usize>, negated: bool)
    requires p.len() == 2, forall|s: State| #[trigger] p[0]@.contains(s) ==> first_block_test(s, finals, negated), forall|s: State| #[trigger] p[1]@.contains(s) ==> !first_block_test(s, finals, negated)
    ensures pure(p, finals)
{
    assert forall|k: int| 0 <= k < p.len() implies pure_block((#[trigger] p[k])@, finals) by {
        if k == 0 { assert forall|a: State, c: State| #[trigger] p[0]@.contains(a) && #[trigger] p[0]@.contains(c) implies is_accepting(a, finals) == is_accepting(c, finals) by { } }
        else { assert forall|a: State, c: State| #[trigger] p[1]@.contains(a) && #[trigger] p[1]@.contains(c) implies is_accepting(a, finals) == is_accepting(c, finals) by { } }
    }
}
