// Rendering specs (component.rs / quantifier.rs), written from the regex syntax the output must have -- spec only.
pub open spec fn nl(b: bool) -> Seq<char> { if b { "\n"@ } else { Seq::<char>::empty() } }
pub open spec fn quant_plain(q: Quantifier) -> Seq<char> { match q { Quantifier::KleeneStar => seq!['*'], Quantifier::QuestionMark => seq!['?'] } }
pub open spec fn group_plain(open: Seq<char>, e: Seq<char>, verbose: bool, final_break: bool) -> Seq<char> {
    if verbose { "\n"@ + open + "\n"@ + e + "\n"@ + ")"@ + nl(final_break) } else { open + e + ")"@ }
}
// the text of one component without colour: regex-crate syntax
pub open spec fn plain(c: Component) -> Seq<char> {
    match c {
        Component::CapturedLeftParenthesis => "("@,
        Component::UncapturedLeftParenthesis => "(?:"@,
        Component::RightParenthesis => ")"@,
        Component::CapturedParenthesizedExpression(e, v, fin) => group_plain("("@, e@, v, fin),
        Component::UncapturedParenthesizedExpression(e, v, fin) => group_plain("(?:"@, e@, v, fin),
        Component::Caret(v) => "^"@ + nl(v),
        Component::DollarSign(v) => nl(v) + "$"@,
        Component::CharClass(s) => s@,
        Component::Hyphen => "-"@,
        Component::IgnoreCaseFlag => "(?i)"@,
        Component::IgnoreCaseAndVerboseModeFlag => "(?ix)"@ + "\n"@,
        Component::VerboseModeFlag => "(?x)"@ + "\n"@,
        Component::LeftBracket => "["@,
        Component::RightBracket => "]"@,
        Component::Pipe => "|"@,
        Component::Quantifier(q, v) => quant_plain(q) + nl(v),
        // count 0 is only used as a pattern template by the colouring code; a real repetition prints {n} / {m,n}
        Component::Repetition(n, v) => if n == 0 { "{\\d+\\}"@ + nl(v) } else { "{"@ + dec(n) + "}"@ + nl(v) },
        Component::RepetitionRange(m, n, v) => if m == 0 && n == 0 { "{\\d+,\\d+\\}"@ + nl(v) } else { "{"@ + dec(m) + ","@ + dec(n) + "}"@ + nl(v) },
    }
}
// ---- colour: an SGR sequence ESC [ params m ... ESC [ 0 m around a core text
pub open spec fn sgr(params: Seq<char>, core: Seq<char>) -> Seq<char> { "\u{1b}["@ + params + "m"@ + core + "\u{1b}[0m"@ }
pub open spec fn wrapped(r: Seq<char>, core: Seq<char>) -> bool { exists|params: Seq<char>| #[trigger] sgr(params, core) == r }
// coloured rendering = plain rendering with colour codes added and nothing else changed:
// same line-break structure, the visible core wrapped in one SGR pair (groups: each parenthesis wrapped, the inner text untouched)
pub open spec fn core(c: Component) -> Seq<char> {
    match c {
        Component::Caret(_) => plain(Component::Caret(false)), Component::DollarSign(_) => plain(Component::DollarSign(false)),
        Component::IgnoreCaseAndVerboseModeFlag => "(?ix)"@, Component::VerboseModeFlag => "(?x)"@,
        Component::Quantifier(q, _) => quant_plain(q),
        Component::Repetition(n, _) => plain(Component::Repetition(n, false)),
        Component::RepetitionRange(m, n, _) => plain(Component::RepetitionRange(m, n, false)),
        _ => plain(c),
    }
}
pub open spec fn pre(c: Component) -> Seq<char> { match c { Component::DollarSign(v) => nl(v), _ => Seq::<char>::empty() } }
pub open spec fn post(c: Component) -> Seq<char> {
    match c {
        Component::Caret(v) => nl(v), Component::Quantifier(_, v) => nl(v), Component::Repetition(_, v) => nl(v), Component::RepetitionRange(_, _, v) => nl(v),
        Component::IgnoreCaseAndVerboseModeFlag => "\n"@, Component::VerboseModeFlag => "\n"@,
        _ => Seq::<char>::empty(),
    }
}
pub open spec fn is_group(c: Component) -> bool { c is CapturedParenthesizedExpression || c is UncapturedParenthesizedExpression }
pub open spec fn colored_ok(r: Seq<char>, c: Component) -> bool {
    match c {
        Component::CapturedParenthesizedExpression(e, v, fin) => exists|pl: Seq<char>, pr: Seq<char>|
            group_colored(#[trigger] sgr(pl, "("@), #[trigger] sgr(pr, ")"@), e@, v, fin) =~= r,
        Component::UncapturedParenthesizedExpression(e, v, fin) => exists|pl: Seq<char>, pr: Seq<char>|
            group_colored(#[trigger] sgr(pl, "(?:"@), #[trigger] sgr(pr, ")"@), e@, v, fin) =~= r,
        _ => framed_ok(r, pre(c), core(c), post(c)),
    }
}
pub open spec fn framed_ok(r: Seq<char>, a: Seq<char>, k: Seq<char>, b: Seq<char>) -> bool { exists|p: Seq<char>| a + #[trigger] sgr(p, k) + b =~= r }
pub open spec fn framed(a: Seq<char>, w: Seq<char>, b: Seq<char>) -> Seq<char> { a + w + b }
pub open spec fn group_colored(l: Seq<char>, rp: Seq<char>, e: Seq<char>, verbose: bool, final_break: bool) -> Seq<char> {
    if verbose { "\n"@ + l + "\n"@ + e + "\n"@ + rp + nl(final_break) } else { l + e + rp }
}
pub open spec fn group_open(capturing: bool) -> Seq<char> { if capturing { "("@ } else { "(?:"@ } }
// a parenthesised text: capturing iff requested, coloured iff requested, nothing else
pub open spec fn group_ok(r: Seq<char>, capturing: bool, e: Seq<char>, verbose: bool, final_break: bool, colorized: bool) -> bool {
    if colorized { exists|pl: Seq<char>, pr: Seq<char>| group_colored(#[trigger] sgr(pl, group_open(capturing)), #[trigger] sgr(pr, ")"@), e, verbose, final_break) =~= r }
    else { r =~= group_plain(group_open(capturing), e, verbose, final_break) }
}
// consistency of the spec itself: the plain rendering has the same frame as the coloured one
pub proof fn lemma_plain_is_framed(c: Component)
    requires !is_group(c)
    ensures plain(c) =~= pre(c) + core(c) + post(c)
{}

// ---- Display for Grapheme (grapheme.rs): value, optional group, optional {n} / {m,n}
pub uninterp spec fn joined(chars: Seq<String>) -> Seq<char>;                 // Vec<String>::join("")
pub uninterp spec fn joined_shown(gs: Seq<Grapheme>) -> Seq<char>;             // concatenated Display renderings of nested repetitions
pub uninterp spec fn char_count_spec(g: Grapheme, escaped: bool) -> nat;       // Grapheme::char_count
pub uninterp spec fn count_char(s: Seq<char>, c: char) -> nat;                 // str::matches(c).count()
pub open spec fn value_text(g: Grapheme) -> Seq<char> { if g.repetitions@.len() == 0 { joined(g.chars@) } else { joined_shown(g.repetitions@) } }
// one regex atom: a single code point, or one string holding a single escape sequence (\d, \n, \u{..}); only then may a quantifier follow without a group
pub uninterp spec fn single_escape(s: Seq<char>) -> bool;                     // is_single_escape_sequence (grapheme.rs): decided in unit `atom` (F13)
pub open spec fn single_atom(g: Grapheme) -> bool { char_count_spec(g, false) == 1 || (g.chars@.len() == 1 && single_escape(g.chars@[0]@)) }
pub open spec fn quantified(g: Grapheme) -> bool { g.min < g.max || g.min > 1 }
pub open spec fn quant_comp(g: Grapheme, verbose: bool) -> Component { if g.min < g.max { Component::RepetitionRange(g.min, g.max, verbose) } else { Component::Repetition(g.min, verbose) } }
pub open spec fn grapheme_plain(g: Grapheme) -> Seq<char> {
    let v = value_text(g);
    if !quantified(g) { v }
    else if single_atom(g) { v + plain(quant_comp(g, false)) }
    else { group_plain(group_open(g.is_capturing_group_enabled), v, g.is_verbose_mode_enabled, false) + plain(quant_comp(g, g.is_verbose_mode_enabled)) }
}
