// First loop of Expression::from: the equation system read off the automaton -- spec and proof code only.
// The automaton is opaque: its states in depth-first order, accepting predicate and edge map are uninterpreted views.
pub uninterp spec fn d_states(d: Dfa) -> Seq<State>;
pub uninterp spec fn d_final(d: Dfa, s: State) -> bool;
pub uninterp spec fn d_edges(d: Dfa) -> Map<(State, State), Grapheme>;
pub open spec fn states_ok(d: Dfa) -> bool {
    d_states(d).no_duplicates()
    && forall|s: State, t: State| #[trigger] d_edges(d).contains_key((s, t)) && d_states(d).contains(s) ==> d_states(d).contains(t)
}
// language of the transition i -> j and of "state i accepts"
pub open spec fn edge_lang(d: Dfa, i: int, j: int) -> Lang {
    if d_edges(d).contains_key((d_states(d)[i], d_states(d)[j])) { lit_lang(seq![d_edges(d)[(d_states(d)[i], d_states(d)[j])]]) } else { ISet::empty() }
}
pub open spec fn fin_lang(d: Dfa, i: int) -> Lang { if d_final(d, d_states(d)[i]) { eps() } else { ISet::empty() } }
// the matrices encode the automaton
pub open spec fn encodes(a: Seq<Row>, b: Row, d: Dfa, n: int) -> bool {
    &&& forall|i: int, j: int| 0 <= i < n && 0 <= j < n ==> olang(#[trigger] a[i][j]) == edge_lang(d, i, j)
    &&& forall|i: int, j: int| 0 <= i < n && 0 <= j < n && (#[trigger] a[i][j]) is Some ==> d_edges(d).contains_key((d_states(d)[i], d_states(d)[j]))
    &&& forall|i: int| 0 <= i < n ==> olang(#[trigger] b[i]) == fin_lang(d, i)
}
// `rl` solves the right-language equations of the automaton; `rank` witnesses that it is acyclic
pub open spec fn edge_row_sum(d: Dfa, i: int, k: int) -> Lang
    decreases k
{
    if k <= 0 { ISet::empty() } else { edge_row_sum(d, i, k - 1).union(cat(edge_lang(d, i, k - 1), rl(k - 1))) }
}
pub open spec fn dfa_solved_by_rl(d: Dfa, n: int) -> bool { forall|i: int| 0 <= i < n ==> rl(i) == #[trigger] edge_row_sum(d, i, n).union(fin_lang(d, i)) }
pub open spec fn dfa_ranked(d: Dfa, n: int) -> bool {
    forall|i: int, j: int| 0 <= i < n && 0 <= j < n && #[trigger] d_edges(d).contains_key((d_states(d)[i], d_states(d)[j])) ==> rank(i) < rank(j)
}
pub proof fn lemma_row_sum_is_edge_row_sum(a: Seq<Row>, b: Row, d: Dfa, n: int, i: int, k: int)
    requires encodes(a, b, d, n), 0 <= i < n, 0 <= k <= n
    ensures row_sum(a[i], k) == edge_row_sum(d, i, k)
    decreases k
{
    if k > 0 {
        lemma_row_sum_is_edge_row_sum(a, b, d, n, i, k - 1);
        assert(olang(a[i][k - 1]) == edge_lang(d, i, k - 1));
    }
}
// what the first loop must establish is exactly the precondition of the elimination loop
pub proof fn lemma_encoded_system(a: Seq<Row>, b: Row, d: Dfa, n: int)
    requires wf_dims(a, b, n), encodes(a, b, d, n), dfa_solved_by_rl(d, n), dfa_ranked(d, n)
    ensures system_ok(a, b, n), acyclic(a, n)
{
    assert forall|i: int| 0 <= i < n implies #[trigger] row_ok(a, b, i, n) by {
        lemma_row_sum_is_edge_row_sum(a, b, d, n, i, n);
        assert(rl(i) == edge_row_sum(d, i, n).union(fin_lang(d, i)));
        assert(olang(b[i]) == fin_lang(d, i));
    }
    assert forall|i: int, j: int| 0 <= i < n && 0 <= j < n && (#[trigger] a[i][j]) is Some implies rank(i) < rank(j) by {
        assert(d_edges(d).contains_key((d_states(d)[i], d_states(d)[j])));
    }
}
// position of a state in the duplicate-free state list
pub open spec fn index_of(s: Seq<State>, x: State) -> int { choose|j: int| 0 <= j < s.len() && s[j] == x }
