// First loop of Expression::from: the equation system read off the automaton -- spec and proof code only.
// The automaton is opaque: its states in depth-first order, accepting predicate and out-edges are uninterpreted views.
// Out-edges are a SEQUENCE of (label, target): parallel edges between two states are allowed (the graph rebuilt after minimisation
// has them, e.g. for the test cases "ac", "bc"); Expression::from unions their labels.
pub uninterp spec fn d_states(d: Dfa) -> Seq<State>;
pub uninterp spec fn d_final(d: Dfa, s: State) -> bool;
pub uninterp spec fn d_out(d: Dfa, s: State) -> Seq<(Grapheme, State)>;
pub open spec fn has_edge(d: Dfa, s: State, t: State) -> bool { exists|k: int| 0 <= k < d_out(d, s).len() && (#[trigger] d_out(d, s)[k]).1 == t }
pub open spec fn states_ok(d: Dfa) -> bool {
    d_states(d).no_duplicates()
    && forall|s: State, k: int| d_states(d).contains(s) && 0 <= k < d_out(d, s).len() ==> d_states(d).contains((#[trigger] d_out(d, s)[k]).1)
}
// union of the label languages of the first k out-edges that lead to t
pub open spec fn edge_lang_upto(es: Seq<(Grapheme, State)>, t: State, k: int) -> Lang
    decreases k
{
    if k <= 0 { ISet::empty() } else { edge_lang_upto(es, t, k - 1).union(if es[k - 1].1 == t { lit_lang(seq![es[k - 1].0]) } else { ISet::empty() }) }
}
pub open spec fn edge_lang(d: Dfa, i: int, j: int) -> Lang { edge_lang_upto(d_out(d, d_states(d)[i]), d_states(d)[j], d_out(d, d_states(d)[i]).len() as int) }
pub open spec fn fin_lang(d: Dfa, i: int) -> Lang { if d_final(d, d_states(d)[i]) { eps() } else { ISet::empty() } }
// the matrices encode the automaton
pub open spec fn encodes(a: Seq<Row>, b: Row, d: Dfa, n: int) -> bool {
    &&& forall|i: int, j: int| 0 <= i < n && 0 <= j < n ==> olang(#[trigger] a[i][j]) == edge_lang(d, i, j)
    &&& forall|i: int, j: int| 0 <= i < n && 0 <= j < n && (#[trigger] a[i][j]) is Some ==> has_edge(d, d_states(d)[i], d_states(d)[j])
    &&& forall|i: int| 0 <= i < n ==> olang(#[trigger] b[i]) == fin_lang(d, i)
}
// `rl` solves the right-language equations of the automaton; `rank` witnesses that it is acyclic
pub open spec fn edge_row_sum(d: Dfa, i: int, k: int) -> Lang
    decreases k
{
    if k <= 0 { ISet::empty() } else { edge_row_sum(d, i, k - 1).union(cat(edge_lang(d, i, k - 1), rl(k - 1))) }
}
pub open spec fn dfa_solved_by_rl(d: Dfa, n: int) -> bool { forall|i: int| 0 <= i < n ==> rl(i) == #[trigger] edge_row_sum(d, i, n).union(fin_lang(d, i)) }
pub open spec fn dfa_ranked(d: Dfa, n: int) -> bool {
    forall|i: int, j: int| 0 <= i < n && 0 <= j < n && #[trigger] has_edge(d, d_states(d)[i], d_states(d)[j]) ==> rank(i) < rank(j)
}
pub proof fn lemma_row_sum_is_edge_row_sum(a: Seq<Row>, b: Row, d: Dfa, n: int, i: int, k: int)
    requires encodes(a, b, d, n), 0 <= i < n, 0 <= k <= n
    ensures row_sum(a[i], k) == edge_row_sum(d, i, k)
    decreases k
{
    if k > 0 {
        lemma_row_sum_is_edge_row_sum(a, b, d, n, i, k - 1);
        assert(olang(a[i][k - 1]) == edge_lang(d, i, k - 1));
    }
}
// what the first loop must establish is exactly the precondition of the elimination loop
pub proof fn lemma_encoded_system(a: Seq<Row>, b: Row, d: Dfa, n: int)
    requires wf_dims(a, b, n), encodes(a, b, d, n), dfa_solved_by_rl(d, n), dfa_ranked(d, n)
    ensures system_ok(a, b, n), acyclic(a, n)
{
    assert forall|i: int| 0 <= i < n implies #[trigger] row_ok(a, b, i, n) by {
        lemma_row_sum_is_edge_row_sum(a, b, d, n, i, n);
        assert(rl(i) == edge_row_sum(d, i, n).union(fin_lang(d, i)));
        assert(olang(b[i]) == fin_lang(d, i));
    }
    assert forall|i: int, j: int| 0 <= i < n && 0 <= j < n && (#[trigger] a[i][j]) is Some implies rank(i) < rank(j) by {
        assert(has_edge(d, d_states(d)[i], d_states(d)[j]));
    }
}
// row i while its out-edges are being processed: column j holds the labels of the first k edges that lead to state j
pub open spec fn row_partial(row: Row, d: Dfa, i: int, n: int, k: int) -> bool {
    forall|j: int| 0 <= j < n ==> olang(#[trigger] row[j]) == edge_lang_upto(d_out(d, d_states(d)[i]), d_states(d)[j], k)
        && (row[j] is Some ==> exists|q: int| 0 <= q < k && q < d_out(d, d_states(d)[i]).len() && (#[trigger] d_out(d, d_states(d)[i])[q]).1 == d_states(d)[j])
}
