// Stand-in for the petgraph API used by dfa.rs: ASSUMED contracts on a dependency.
pub mod lem {
use vstd::prelude::*;
use vstd::std_specs::hash::*;
use vstd::std_specs::vec::*;
pub broadcast proof fn lemma_first_key_in_set<K>(it: std::collections::hash_set::Iter<K>)
    requires (#[trigger] into_iter_hash_keys(it)).len() > 0
    ensures into_iter_hash_keys(it).to_set().contains(into_iter_hash_keys(it)[0])
{
    let ks = into_iter_hash_keys(it);
    assert(ks.contains(ks[0]));
}
}
pub mod pg {
use vstd::prelude::*;
use vstd::std_specs::cmp::*;
// ---- stand-in for the part of petgraph 0.6 that dfa.rs uses (assumed contracts on a dependency) ----
// Ghost view: edges() maps a pair of states to ONE label.  Adequate for the trie (unit `trie` proves that add_new_state always targets a fresh node, so no
// two edges ever join the same pair).  The graph rebuilt by recreate_graph can have parallel edges ("ac", "bc"): there edges() keeps the last label only, and
// unit `dfa` claims nothing but the EXISTENCE of the copied edges and the accepting marks.
pub struct NodeIndex<Ix = u32> { pub ix: Ix }
pub struct EdgeIndex<Ix = u32> { pub ix: Ix }
impl Copy for NodeIndex<u32> {}
impl Clone for NodeIndex<u32> { fn clone(&self) -> (r: Self) ensures r == *self { *self } }
impl Copy for EdgeIndex<u32> {}
impl Clone for EdgeIndex<u32> { fn clone(&self) -> (r: Self) ensures r == *self { *self } }
impl PartialEqSpecImpl for NodeIndex<u32> {
    open spec fn obeys_eq_spec() -> bool { true }
    open spec fn eq_spec(&self, other: &NodeIndex<u32>) -> bool { *self == *other }
}
impl PartialEq for NodeIndex<u32> { fn eq(&self, o: &Self) -> (r: bool) { self.ix == o.ix } }
impl Eq for NodeIndex<u32> {}
impl core::hash::Hash for NodeIndex<u32> { #[verifier::external_body] fn hash<H: core::hash::Hasher>(&self, state: &mut H) { unimplemented!() } }
pub broadcast axiom fn axiom_nodeindex_key_model() ensures #[trigger] vstd::std_specs::hash::obeys_key_model::<NodeIndex<u32>>();
impl NodeIndex<u32> {
    pub fn index(&self) -> (r: usize) ensures r == self.ix as usize { self.ix as usize }
}
#[derive(PartialEq, Eq)] pub enum Direction { Outgoing, Incoming }
pub struct StableGraph<N, E> { pub n: core::marker::PhantomData<N>, pub e: core::marker::PhantomData<E>, pub ghost_nodes: Ghost<Set<NodeIndex<u32>>>, pub ghost_edges: Ghost<Map<(NodeIndex<u32>, NodeIndex<u32>), E>> }
impl<N, E> StableGraph<N, E> {
    pub open spec fn nodes(&self) -> Set<NodeIndex<u32>> { self.ghost_nodes@ }
    pub open spec fn edges(&self) -> Map<(NodeIndex<u32>, NodeIndex<u32>), E> { self.ghost_edges@ }
    pub uninterp spec fn endpoints(&self, e: EdgeIndex<u32>) -> (NodeIndex<u32>, NodeIndex<u32>);
    #[verifier::external_body]
    pub fn new() -> (r: Self) ensures r.nodes() == Set::<NodeIndex<u32>>::empty(), r.edges() == Map::<(NodeIndex<u32>, NodeIndex<u32>), E>::empty() { unimplemented!() }
    #[verifier::external_body]
    pub fn add_node(&mut self, w: N) -> (r: NodeIndex<u32>)
        ensures !old(self).nodes().contains(r), final(self).nodes() == old(self).nodes().insert(r), final(self).edges() == old(self).edges() { unimplemented!() }
    #[verifier::external_body]
    pub fn add_edge(&mut self, a: NodeIndex<u32>, b: NodeIndex<u32>, w: E) -> (r: EdgeIndex<u32>)
        requires old(self).nodes().contains(a), old(self).nodes().contains(b)
        ensures final(self).nodes() == old(self).nodes(), final(self).edges() == old(self).edges().insert((a, b), w) { unimplemented!() }
    #[verifier::external_body]
    pub fn update_edge(&mut self, a: NodeIndex<u32>, b: NodeIndex<u32>, w: E) -> (r: EdgeIndex<u32>)
        requires old(self).nodes().contains(a), old(self).nodes().contains(b)
        ensures final(self).nodes() == old(self).nodes(), final(self).edges() == old(self).edges().insert((a, b), w) { unimplemented!() }
    #[verifier::external_body]
    pub fn neighbors(&self, a: NodeIndex<u32>) -> (r: Vec<NodeIndex<u32>>)
        ensures forall|t: NodeIndex<u32>| r@.contains(t) <==> self.edges().contains_key((a, t)) { unimplemented!() }
    #[verifier::external_body]
    pub fn neighbors_directed(&self, a: NodeIndex<u32>, dir: Direction) -> (r: Vec<NodeIndex<u32>>)
        ensures dir == Direction::Incoming ==> forall|t: NodeIndex<u32>| r@.contains(t) <==> self.edges().contains_key((t, a)),
                dir == Direction::Outgoing ==> forall|t: NodeIndex<u32>| r@.contains(t) <==> self.edges().contains_key((a, t)) { unimplemented!() }
    #[verifier::external_body]
    pub fn find_edge(&self, a: NodeIndex<u32>, b: NodeIndex<u32>) -> (r: Option<EdgeIndex<u32>>)
        ensures r is Some <==> self.edges().contains_key((a, b)), r is Some ==> self.endpoints(r->Some_0) == (a, b) { unimplemented!() }
    #[verifier::external_body]
    pub fn edge_weight(&self, e: EdgeIndex<u32>) -> (r: Option<&E>)
        ensures self.edges().contains_key(self.endpoints(e)) ==> r is Some && *r->Some_0 == self.edges()[self.endpoints(e)] { unimplemented!() }
}

}
