// Model of str::replace with char / char-array patterns (assumed std semantics) and the flat-map algebra used to reason about chains of
// replacements -- spec and proof code only.
pub open spec fn fm(s: Seq<char>, f: spec_fn(char) -> Seq<char>) -> Seq<char>
    decreases s.len()
{
    if s.len() == 0 { Seq::empty() } else { f(s[0]) + fm(s.drop_first(), f) }
}
pub proof fn lemma_fm_append(a: Seq<char>, b: Seq<char>, f: spec_fn(char) -> Seq<char>)
    ensures fm(a + b, f) == fm(a, f) + fm(b, f)
    decreases a.len()
{
    if a.len() == 0 { assert(a + b =~= b); assert(fm(a, f) + fm(b, f) =~= fm(b, f)); }
    else {
        assert((a + b).drop_first() =~= a.drop_first() + b);
        lemma_fm_append(a.drop_first(), b, f);
        assert(fm(a + b, f) =~= fm(a, f) + fm(b, f));
    }
}
pub proof fn lemma_fm_compose(s: Seq<char>, f: spec_fn(char) -> Seq<char>, g: spec_fn(char) -> Seq<char>, h: spec_fn(char) -> Seq<char>)
    requires forall|c: char| #[trigger] h(c) == fm(f(c), g)
    ensures fm(fm(s, f), g) == fm(s, h)
    decreases s.len()
{
    if s.len() == 0 { }
    else {
        lemma_fm_compose(s.drop_first(), f, g, h);
        lemma_fm_append(f(s[0]), fm(s.drop_first(), f), g);
        assert(h(s[0]) == fm(f(s[0]), g));
    }
}
pub proof fn lemma_fm_ext(s: Seq<char>, f: spec_fn(char) -> Seq<char>, g: spec_fn(char) -> Seq<char>)
    requires forall|c: char| #[trigger] f(c) == g(c)
    ensures fm(s, f) == fm(s, g)
    decreases s.len()
{
    if s.len() > 0 { lemma_fm_ext(s.drop_first(), f, g); assert(f(s[0]) == g(s[0])); }
}
pub proof fn lemma_fm_id(s: Seq<char>)
    ensures fm(s, |c: char| seq![c]) == s
    decreases s.len()
{
    if s.len() > 0 { lemma_fm_id(s.drop_first()); assert(seq![s[0]] + s.drop_first() =~= s); }
}
// str::replace(pattern, to): every character matched by the pattern is replaced by `to`
pub trait VxPattern { spec fn matches(&self, c: char) -> bool; }
impl VxPattern for char { open spec fn matches(&self, c: char) -> bool { c == *self } }
impl<const N: usize> VxPattern for [char; N] { open spec fn matches(&self, c: char) -> bool { self@.contains(c) } }
pub open spec fn subst_fn<P: VxPattern>(p: P, to: Seq<char>) -> spec_fn(char) -> Seq<char> { |c: char| if p.matches(c) { to } else { seq![c] } }
pub trait VxReplace {
    spec fn vx_view(&self) -> Seq<char>;
    fn vx_replace<P: VxPattern>(&self, p: P, to: &str) -> (r: String) ensures r@ == fm(self.vx_view(), subst_fn(p, to@));
}
impl VxReplace for String { open spec fn vx_view(&self) -> Seq<char> { self@ } #[verifier::external_body] fn vx_replace<P: VxPattern>(&self, p: P, to: &str) -> (r: String) { unimplemented!() } }
pub proof fn lemma_fm_nomatch(s: Seq<char>, f: spec_fn(char) -> Seq<char>)
    requires forall|i: int| 0 <= i < s.len() ==> f(#[trigger] s[i]) == seq![s[i]]
    ensures fm(s, f) == s
    decreases s.len()
{
    if s.len() > 0 {
        assert(f(s[0]) == seq![s[0]]);
        assert forall|i: int| 0 <= i < s.drop_first().len() implies f(#[trigger] s.drop_first()[i]) == seq![s.drop_first()[i]] by { assert(s.drop_first()[i] == s[i + 1]); }
        lemma_fm_nomatch(s.drop_first(), f);
        assert(seq![s[0]] + s.drop_first() =~= s);
    }
}
// a loop `for x in list { text = text.replace(x, T(x)) }`: after k rounds every character among the first k list elements has been replaced by its own text
pub open spec fn set_map(list: Seq<char>, k: int, t: spec_fn(char) -> Seq<char>) -> spec_fn(char) -> Seq<char> {
    |c: char| if list.take(k).contains(c) { t(c) } else { seq![c] }
}
pub open spec fn texts_avoid(list: Seq<char>, t: spec_fn(char) -> Seq<char>) -> bool {
    forall|c: char, i: int| 0 <= i < t(c).len() ==> !list.contains(#[trigger] t(c)[i])
}
pub proof fn lemma_set_step(s: Seq<char>, list: Seq<char>, k: int, t: spec_fn(char) -> Seq<char>)
    requires 0 <= k < list.len(), texts_avoid(list, t)
    ensures fm(fm(s, set_map(list, k, t)), |c: char| if c == list[k] { t(list[k]) } else { seq![c] }) == fm(s, set_map(list, k + 1, t))
{
    let f = set_map(list, k, t); let h = set_map(list, k + 1, t);
    let g = |c: char| if c == list[k] { t(list[k]) } else { seq![c] };
    assert(list.take(k + 1) =~= list.take(k).push(list[k]));
    assert forall|c: char| #[trigger] h(c) == fm(f(c), g) by {
        reveal_with_fuel(fm, 3);
        if list.take(k).contains(c) {
            assert(list.take(k + 1).contains(c)) by { let tk = list.take(k); let i = choose|i: int| 0 <= i < tk.len() && tk[i] == c; assert(list.take(k + 1)[i] == c); }
            assert forall|i: int| 0 <= i < t(c).len() implies g(#[trigger] t(c)[i]) == seq![t(c)[i]] by { assert(!list.contains(t(c)[i])); assert(list.contains(list[k])); }
            lemma_fm_nomatch(t(c), g);
        } else {
            if c == list[k] { assert(list.take(k + 1)[k] == c); assert(fm(seq![c], g) =~= t(c)); }
            else {
                assert(!list.take(k + 1).contains(c)) by { if list.take(k + 1).contains(c) { let tk = list.take(k + 1); let i = choose|i: int| 0 <= i < tk.len() && tk[i] == c; if i < k { assert(list.take(k)[i] == c); } } }
                assert(fm(seq![c], g) =~= seq![c]);
            }
        }
    }
    lemma_fm_compose(s, f, g, h);
}
// the same step when a replacement text may repeat its own character (`x` -> `\x`): the list must then be duplicate-free
pub proof fn lemma_set_step_self(s: Seq<char>, list: Seq<char>, k: int, t: spec_fn(char) -> Seq<char>)
    requires 0 <= k < list.len(), list.no_duplicates(),
        forall|c: char, i: int| 0 <= i < t(c).len() && list.contains(#[trigger] t(c)[i]) ==> t(c)[i] == c,
    ensures fm(fm(s, set_map(list, k, t)), |c: char| if c == list[k] { t(list[k]) } else { seq![c] }) == fm(s, set_map(list, k + 1, t))
{
    let f = set_map(list, k, t); let h = set_map(list, k + 1, t);
    let g = |c: char| if c == list[k] { t(list[k]) } else { seq![c] };
    assert(list.take(k + 1) =~= list.take(k).push(list[k]));
    assert forall|c: char| #[trigger] h(c) == fm(f(c), g) by {
        reveal_with_fuel(fm, 3);
        if list.take(k).contains(c) {
            let tk = list.take(k); let i0 = choose|i: int| 0 <= i < tk.len() && tk[i] == c;
            assert(list[i0] == c);
            assert(list.take(k + 1)[i0] == c);
            assert forall|i: int| 0 <= i < t(c).len() implies g(#[trigger] t(c)[i]) == seq![t(c)[i]] by {
                if t(c)[i] == list[k] { assert(list.contains(list[k])); assert(t(c)[i] == c); assert(list[i0] == list[k]); }
            }
            lemma_fm_nomatch(t(c), g);
        } else {
            if c == list[k] { assert(list.take(k + 1)[k] == c); assert(fm(seq![c], g) =~= t(c)); }
            else {
                assert(!list.take(k + 1).contains(c)) by { if list.take(k + 1).contains(c) { let tk = list.take(k + 1); let i = choose|i: int| 0 <= i < tk.len() && tk[i] == c; if i < k { assert(list.take(k)[i] == c); } } }
                assert(fm(seq![c], g) =~= seq![c]);
            }
        }
    }
    lemma_fm_compose(s, f, g, h);
}
pub proof fn lemma_set_map_zero(s: Seq<char>, list: Seq<char>, t: spec_fn(char) -> Seq<char>)
    ensures fm(s, set_map(list, 0, t)) == s
{
    assert forall|c: char| #[trigger] set_map(list, 0, t)(c) == (|x: char| seq![x])(c) by { assert(list.take(0) =~= Seq::<char>::empty()); }
    lemma_fm_ext(s, set_map(list, 0, t), |x: char| seq![x]);
    lemma_fm_id(s);
}
// format!("{:04x}", n): lower-case hexadecimal digits (assumed of std)
pub uninterp spec fn hex4(n: u32) -> Seq<char>;
pub open spec fn is_hex_digit(c: char) -> bool { ('0' <= c && c <= '9') || ('a' <= c && c <= 'f') }
pub broadcast axiom fn axiom_hex4_digits(n: u32, i: int)
    requires 0 <= i < hex4(n).len()
    ensures is_hex_digit(#[trigger] hex4(n)[i]);
#[verifier::external_body] pub fn vx_hex4(n: u32) -> (r: String) ensures r@ == hex4(n) { unimplemented!() }
// ---- what Display for RegExp must do to the assembled text (property C06):
// White_Space code points other than the ASCII ones (which are escaped earlier or are the plain space)
pub open spec fn other_ws(c: char) -> bool {
    c == '\u{85}' || c == '\u{a0}' || c == '\u{1680}' || ('\u{2000}' <= c && c <= '\u{200a}') || c == '\u{2028}' || c == '\u{2029}' || c == '\u{202f}' || c == '\u{205f}' || c == '\u{3000}'
}
// a whitespace character other than the plain space is written as its own \\uXXXX escape: not ignored under (?x), and matching only itself
pub open spec fn ws_escape(c: char) -> Seq<char> { seq!['\\', 'u'] + hex4(c as u32) }
pub open spec fn vmap(verbose: bool) -> spec_fn(char) -> Seq<char> {
    |c: char| if c == '\u{b}' { "\\v"@ } else if c == '\u{c}' { "\\f"@ } else if verbose && c == '#' { "\\#"@ } else if verbose && other_ws(c) { ws_escape(c) } else if verbose && c == ' ' { "\\ "@ } else { seq![c] }
}
pub open spec fn is_class_shorthand(t: Seq<char>) -> bool { t == "\\s"@ || t == "\\d"@ || t == "\\w"@ || t == "\\S"@ || t == "\\D"@ || t == "\\W"@ }
