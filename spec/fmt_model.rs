// Model of std formatting used by the rendering units (assumed semantics of format!/write!/ToString; rule R16).
//   format!("a{}b{}", X, Y)  ==>  vx_concat4(vx_lit("a"), (X).vx_show(), vx_lit("b"), (Y).vx_show())
//   write!(f, FMT, ARGS)      ==>  f.vx_write(<the same concatenation>)
//   X.to_string()             ==>  (X).vx_show()
// `shown` is the Display rendering of a value.  For grex's own types it is the spec function the extracted Display::fmt body is
// verified against (vx_fmt); vx_show itself is the blanket `ToString for T: Display`, assumed to return exactly what fmt writes.
pub trait VxShow {
    spec fn shown(&self) -> Seq<char>;
    fn vx_show(&self) -> (r: String) ensures r@ == self.shown();
}
impl VxShow for String { open spec fn shown(&self) -> Seq<char> { self@ } #[verifier::external_body] fn vx_show(&self) -> (r: String) { unimplemented!() } }
impl<'a> VxShow for &'a str { open spec fn shown(&self) -> Seq<char> { self@ } #[verifier::external_body] fn vx_show(&self) -> (r: String) { unimplemented!() } }
impl VxShow for char { open spec fn shown(&self) -> Seq<char> { seq![*self] } #[verifier::external_body] fn vx_show(&self) -> (r: String) { unimplemented!() } }
pub uninterp spec fn dec(n: u32) -> Seq<char>;      // decimal rendering of an integer (std), uninterpreted
impl VxShow for u32 { open spec fn shown(&self) -> Seq<char> { dec(*self) } #[verifier::external_body] fn vx_show(&self) -> (r: String) { unimplemented!() } }
impl<'a, T: VxShow> VxShow for &'a T { open spec fn shown(&self) -> Seq<char> { (**self).shown() } #[verifier::external_body] fn vx_show(&self) -> (r: String) { unimplemented!() } }
#[verifier::external_body] pub fn vx_lit(s: &str) -> (r: String) ensures r@ == s@ { unimplemented!() }
#[verifier::external_body] pub fn vx_concat2(a: String, b: String) -> (r: String) ensures r@ == a@ + b@ { unimplemented!() }
#[verifier::external_body] pub fn vx_concat3(a: String, b: String, c: String) -> (r: String) ensures r@ == a@ + b@ + c@ { unimplemented!() }
#[verifier::external_body] pub fn vx_concat4(a: String, b: String, c: String, d: String) -> (r: String) ensures r@ == a@ + b@ + c@ + d@ { unimplemented!() }
#[verifier::external_body] pub fn vx_concat5(a: String, b: String, c: String, d: String, e: String) -> (r: String) ensures r@ == a@ + b@ + c@ + d@ + e@ { unimplemented!() }
#[verifier::external_body] pub fn vx_concat6(a: String, b: String, c: String, d: String, e: String, g: String) -> (r: String) ensures r@ == a@ + b@ + c@ + d@ + e@ + g@ { unimplemented!() }
#[verifier::external_body] pub fn vx_concat7(a: String, b: String, c: String, d: String, e: String, g: String, h: String) -> (r: String) ensures r@ == a@ + b@ + c@ + d@ + e@ + g@ + h@ { unimplemented!() }
#[verifier::external_body] pub fn vx_concat8(a: String, b: String, c: String, d: String, e: String, g: String, h: String, i: String) -> (r: String) ensures r@ == a@ + b@ + c@ + d@ + e@ + g@ + h@ + i@ { unimplemented!() }
#[verifier::external_body] pub fn vx_concat9(a: String, b: String, c: String, d: String, e: String, g: String, h: String, i: String, j: String) -> (r: String) ensures r@ == a@ + b@ + c@ + d@ + e@ + g@ + h@ + i@ + j@ { unimplemented!() }
// std::fmt::Formatter as an append-only buffer
pub struct FmtError { pub x: u8 }
pub type Result = core::result::Result<(), FmtError>;
pub struct Formatter<'a> { pub p: core::marker::PhantomData<&'a u8>, pub buf: Ghost<Seq<char>> }
impl<'a> Formatter<'a> {
    pub open spec fn view(&self) -> Seq<char> { self.buf@ }
    #[verifier::external_body] pub fn vx_write(&mut self, s: String) -> (r: Result) ensures final(self)@ == old(self)@ + s@, r is Ok { unimplemented!() }
}
