// Language algebra for grex expressions (Appendix A of DESIGN.md). Spec and proof code only.
// ---- language semantics (spec only) ----
pub type Word = Seq<char>;
pub type Lang = ISet<Word>;

pub uninterp spec fn glang(g: Grapheme) -> Lang;

pub closed spec fn eps() -> Lang { iset![Seq::<char>::empty()] }

pub closed spec fn cat(a: Lang, b: Lang) -> Lang {
    ISet::new(|w: Word| exists|k: int| 0 <= k <= w.len() && a.contains(#[trigger] w.subrange(0, k)) && b.contains(w.subrange(k, w.len() as int)))
}

pub closed spec fn lit_lang(gs: Seq<Grapheme>) -> Lang
    decreases gs.len()
{
    if gs.len() == 0 { eps() } else { cat(glang(gs[0]), lit_lang(gs.drop_first())) }
}

pub closed spec fn alt_lang(opts: Seq<Expression>) -> Lang
    decreases opts, 0int
{
    if opts.len() == 0 { ISet::empty() } else { lang(opts[0]).union(alt_lang(opts.drop_first())) }
}

pub uninterp spec fn star(a: Lang) -> Lang;

pub closed spec fn lang(e: Expression) -> Lang
    decreases e, 1int
{
    match e {
        Expression::Alternation(opts, _, _, _) => alt_lang(opts@),
        Expression::CharacterClass(cs, _) => ISet::new(|w: Word| w.len() == 1 && cs@.contains(w[0])),
        Expression::Concatenation(a, b, _, _, _) => cat(lang(*a), lang(*b)),
        Expression::Literal(c, _, _) => lit_lang(c.graphemes@),
        Expression::Repetition(x, q, _, _, _) => match q {
            Quantifier::QuestionMark => lang(*x).union(eps()),
            Quantifier::KleeneStar => star(lang(*x)),
        },
    }
}

pub open spec fn olang(o: Option<Expression>) -> Lang {
    match o { None => ISet::empty(), Some(e) => lang(e) }
}

pub broadcast proof fn lemma_cat_eps_left(a: Lang)
    ensures #[trigger] cat(eps(), a) == a
{
    assert forall|w: Word| a.contains(w) implies cat(eps(), a).contains(w) by {
        assert(w.subrange(0, 0) =~= Seq::<char>::empty());
        assert(w.subrange(0, w.len() as int) =~= w);
    }
    assert forall|w: Word| cat(eps(), a).contains(w) implies a.contains(w) by {
        let k = choose|k: int| 0 <= k <= w.len() && eps().contains(#[trigger] w.subrange(0, k)) && a.contains(w.subrange(k, w.len() as int));
        assert(w.subrange(0, k).len() == 0);
        assert(w.subrange(k, w.len() as int) =~= w);
    }
}

pub broadcast proof fn lemma_cat_eps_right(a: Lang)
    ensures #[trigger] cat(a, eps()) == a
{
    assert forall|w: Word| a.contains(w) implies cat(a, eps()).contains(w) by {
        assert(w.subrange(0, w.len() as int) =~= w);
        assert(w.subrange(w.len() as int, w.len() as int) =~= Seq::<char>::empty());
    }
    assert forall|w: Word| cat(a, eps()).contains(w) implies a.contains(w) by {
        let k = choose|k: int| 0 <= k <= w.len() && a.contains(#[trigger] w.subrange(0, k)) && eps().contains(w.subrange(k, w.len() as int));
        assert(w.subrange(k, w.len() as int).len() == 0);
        assert(w.subrange(0, k) =~= w);
    }
}

pub broadcast proof fn lemma_cat_assoc(a: Lang, b: Lang, c: Lang)
    ensures #[trigger] cat(cat(a, b), c) == cat(a, cat(b, c))
{
    assert forall|w: Word| cat(cat(a, b), c).contains(w) implies cat(a, cat(b, c)).contains(w) by {
        let k = choose|k: int| 0 <= k <= w.len() && cat(a, b).contains(#[trigger] w.subrange(0, k)) && c.contains(w.subrange(k, w.len() as int));
        let u = w.subrange(0, k);
        let j = choose|j: int| 0 <= j <= u.len() && a.contains(#[trigger] u.subrange(0, j)) && b.contains(u.subrange(j, u.len() as int));
        assert(u.subrange(0, j) =~= w.subrange(0, j));
        let v = w.subrange(j, w.len() as int);
        assert(v.subrange(0, k - j) =~= u.subrange(j, u.len() as int));
        assert(v.subrange(k - j, v.len() as int) =~= w.subrange(k, w.len() as int));
        assert(cat(b, c).contains(v));
    }
    assert forall|w: Word| cat(a, cat(b, c)).contains(w) implies cat(cat(a, b), c).contains(w) by {
        let j = choose|j: int| 0 <= j <= w.len() && a.contains(#[trigger] w.subrange(0, j)) && cat(b, c).contains(w.subrange(j, w.len() as int));
        let v = w.subrange(j, w.len() as int);
        let m = choose|m: int| 0 <= m <= v.len() && b.contains(#[trigger] v.subrange(0, m)) && c.contains(v.subrange(m, v.len() as int));
        let k = j + m;
        let u = w.subrange(0, k);
        assert(u.subrange(0, j) =~= w.subrange(0, j));
        assert(u.subrange(j, u.len() as int) =~= v.subrange(0, m));
        assert(w.subrange(k, w.len() as int) =~= v.subrange(m, v.len() as int));
        assert(cat(a, b).contains(u));
    }
}

pub broadcast proof fn lemma_lit_append(s1: Seq<Grapheme>, s2: Seq<Grapheme>)
    ensures #[trigger] lit_lang(s1 + s2) == cat(lit_lang(s1), lit_lang(s2))
    decreases s1.len()
{
    if s1.len() == 0 {
        assert(s1 + s2 =~= s2);
        lemma_cat_eps_left(lit_lang(s2));
    } else {
        assert((s1 + s2).drop_first() =~= s1.drop_first() + s2);
        lemma_lit_append(s1.drop_first(), s2);
        lemma_cat_assoc(glang(s1[0]), lit_lang(s1.drop_first()), lit_lang(s2));
    }
}

pub broadcast proof fn lemma_cat_empty_l(a: Lang)
    ensures #[trigger] cat(ISet::empty(), a) == ISet::<Word>::empty()
{}
pub broadcast proof fn lemma_cat_empty_r(a: Lang)
    ensures #[trigger] cat(a, ISet::empty()) == ISet::<Word>::empty()
{}
pub broadcast proof fn lemma_lang_lit(e: Expression)
    requires e is Literal
    ensures #[trigger] lang(e) == lit_lang(e->Literal_0.graphemes@)
{}
pub broadcast proof fn lemma_lang_cat(e: Expression)
    requires e is Concatenation
    ensures #[trigger] lang(e) == cat(lang(*e->Concatenation_0), lang(*e->Concatenation_1))
{}
pub broadcast proof fn lemma_lang_rep(e: Expression)
    requires e is Repetition
    ensures #[trigger] lang(e) == (match e->Repetition_1 { Quantifier::QuestionMark => lang(*e->Repetition_0).union(eps()), Quantifier::KleeneStar => star(lang(*e->Repetition_0)) })
{}
pub broadcast proof fn lemma_lang_alt(e: Expression)
    requires e is Alternation
    ensures #[trigger] lang(e) == alt_lang(e->Alternation_0@)
{}


pub closed spec fn class_lang(cs: Set<char>) -> Lang {
    ISet::new(|w: Word| w.len() == 1 && cs.contains(w[0]))
}

pub open spec fn lit_graphemes(e: Expression) -> Option<Seq<Grapheme>> {
    match e { Expression::Literal(c, _, _) => Some(c.graphemes@), _ => None }
}

pub open spec fn value_spec(e: Expression, sub: Option<Substring>) -> Option<Seq<Grapheme>> {
    match e {
        Expression::Literal(c, _, _) => Some(c.graphemes@),
        Expression::Concatenation(e1, e2, _, _, _) => match sub {
            Some(Substring::Prefix) => lit_graphemes(*e1),
            Some(Substring::Suffix) => lit_graphemes(*e2),
            None => None,
        },
        _ => None,
    }
}

pub open spec fn is_prefix(p: Seq<Grapheme>, v: Seq<Grapheme>) -> bool {
    p.len() <= v.len() && v.subrange(0, p.len() as int) == p
}
pub open spec fn is_suffix(p: Seq<Grapheme>, v: Seq<Grapheme>) -> bool {
    p.len() <= v.len() && v.subrange(v.len() - p.len(), v.len() as int) == p
}

// what remove_substring does to an expression, as a relation old -> new
pub open spec fn stripped(old: Expression, new: Expression, sub: Substring, n: int) -> bool
    decreases old
{
    match old {
        Expression::Literal(c, _, _) => new is Literal && (match sub {
            Substring::Prefix => new->Literal_0.graphemes@ == c.graphemes@.subrange(n, c.graphemes@.len() as int),
            Substring::Suffix => new->Literal_0.graphemes@ == c.graphemes@.subrange(0, c.graphemes@.len() - n),
        }),
        Expression::Concatenation(e1, e2, _, _, _) => match sub {
            Substring::Prefix => if *e1 is Literal {
                new is Concatenation && *new->Concatenation_1 == *e2 && stripped(*e1, *new->Concatenation_0, sub, n)
            } else { new == old },
            Substring::Suffix => if *e2 is Literal {
                new is Concatenation && *new->Concatenation_0 == *e1 && stripped(*e2, *new->Concatenation_1, sub, n)
            } else { new == old },
        },
        _ => new == old,
    }
}

pub broadcast proof fn lemma_cat_union_r(a: Lang, b: Lang, c: Lang)
    ensures #[trigger] cat(a, b.union(c)) == cat(a, b).union(cat(a, c))
{
    assert forall|w: Word| cat(a, b.union(c)).contains(w) implies cat(a, b).union(cat(a, c)).contains(w) by {
        let k = choose|k: int| 0 <= k <= w.len() && a.contains(#[trigger] w.subrange(0, k)) && b.union(c).contains(w.subrange(k, w.len() as int));
        if b.contains(w.subrange(k, w.len() as int)) { assert(cat(a, b).contains(w)); } else { assert(cat(a, c).contains(w)); }
    }
}
pub broadcast proof fn lemma_cat_union_l(a: Lang, b: Lang, c: Lang)
    ensures #[trigger] cat(a.union(b), c) == cat(a, c).union(cat(b, c))
{
    assert forall|w: Word| cat(a.union(b), c).contains(w) implies cat(a, c).union(cat(b, c)).contains(w) by {
        let k = choose|k: int| 0 <= k <= w.len() && a.union(b).contains(#[trigger] w.subrange(0, k)) && c.contains(w.subrange(k, w.len() as int));
        if a.contains(w.subrange(0, k)) { assert(cat(a, c).contains(w)); } else { assert(cat(b, c).contains(w)); }
    }
}
pub broadcast proof fn lemma_class_union(s: Set<char>, t: Set<char>)
    ensures #[trigger] class_lang(s.union(t)) == class_lang(s).union(class_lang(t))
{}
pub broadcast proof fn lemma_alt2(s: Seq<Expression>)
    requires s.len() == 2
    ensures #[trigger] alt_lang(s) == lang(s[0]).union(lang(s[1]))
{
    let t = s.drop_first();
    assert(t.len() == 1);
    assert(t.drop_first().len() == 0);
    assert(alt_lang(t) =~= lang(t[0]).union(alt_lang(t.drop_first())));
    assert(alt_lang(t.drop_first()) =~= ISet::<Word>::empty());
}
pub broadcast proof fn lemma_lit_empty(s: Seq<Grapheme>)
    requires s.len() == 0
    ensures #[trigger] lit_lang(s) == eps()
{}
pub broadcast group lang_lemmas {
    lemma_lit_empty,
    lemma_lang_lit, lemma_cat_union_r, lemma_cat_union_l, lemma_class_union, lemma_alt2, lemma_lang_cat, lemma_lang_rep, lemma_lang_alt,
    lemma_cat_eps_left, lemma_cat_eps_right, lemma_cat_assoc, lemma_lit_append, lemma_cat_empty_l, lemma_cat_empty_r,
}
// language of an expression before/after stripping a common prefix / suffix
pub proof fn lemma_strip_lit(v: Seq<Grapheme>, p: Seq<Grapheme>, sub: Substring)
    requires
        sub is Prefix ==> is_prefix(p, v),
        sub is Suffix ==> is_suffix(p, v),
    ensures
        sub is Prefix ==> lit_lang(v) == cat(lit_lang(p), lit_lang(v.subrange(p.len() as int, v.len() as int))),
        sub is Suffix ==> lit_lang(v) == cat(lit_lang(v.subrange(0, v.len() - p.len())), lit_lang(p)),
{
    match sub {
        Substring::Prefix => {
            let rest = v.subrange(p.len() as int, v.len() as int);
            assert(v =~= p + rest);
            lemma_lit_append(p, rest);
        }
        Substring::Suffix => {
            let rest = v.subrange(0, v.len() - p.len());
            assert(v =~= rest + p);
            lemma_lit_append(rest, p);
        }
    }
}
pub broadcast proof fn lemma_strip(old: Expression, new: Expression, sub: Substring, n: int, p: Seq<Grapheme>)
    requires
        #[trigger] stripped(old, new, sub, n),
        p.len() == n,
        value_spec(old, Some(sub)) is Some,
        sub is Prefix ==> is_prefix(p, value_spec(old, Some(sub))->Some_0),
        sub is Suffix ==> is_suffix(p, value_spec(old, Some(sub))->Some_0),
    ensures
        sub is Prefix ==> lang(old) == cat(#[trigger] lit_lang(p), lang(new)),
        sub is Suffix ==> lang(old) == cat(lang(new), lit_lang(p)),
    decreases old
{
    let v = value_spec(old, Some(sub))->Some_0;
    lemma_strip_lit(v, p, sub);
    match old {
        Expression::Literal(c, _, _) => {
            assert(v == c.graphemes@);
            assert(lang(old) == lit_lang(v));
            assert(lang(new) == lit_lang(new->Literal_0.graphemes@));
        }
        Expression::Concatenation(e1, e2, _, _, _) => {
            match sub {
                Substring::Prefix => {
                    assert(*e1 is Literal);
                    let n1 = *new->Concatenation_0;
                    assert(stripped(*e1, n1, sub, n));
                    lemma_strip(*e1, n1, sub, n, p);
                    assert(lang(old) == cat(lang(*e1), lang(*e2)));
                    assert(lang(new) == cat(lang(n1), lang(*e2)));
                    lemma_cat_assoc(lit_lang(p), lang(n1), lang(*e2));
                }
                Substring::Suffix => {
                    assert(*e2 is Literal);
                    let n2 = *new->Concatenation_1;
                    assert(stripped(*e2, n2, sub, n));
                    lemma_strip(*e2, n2, sub, n, p);
                    assert(lang(old) == cat(lang(*e1), lang(*e2)));
                    assert(lang(new) == cat(lang(*e1), lang(n2)));
                    lemma_cat_assoc(lang(*e1), lang(n2), lit_lang(p));
                }
            }
        }
        _ => {}
    }
}

// alt_lang as "some option matches" and its invariance under permutation
pub proof fn lemma_alt_lang_char(s: Seq<Expression>, w: Word)
    ensures alt_lang(s).contains(w) <==> exists|i: int| 0 <= i < s.len() && #[trigger] lang(s[i]).contains(w)
    decreases s.len()
{
    if s.len() == 0 {
    } else {
        lemma_alt_lang_char(s.drop_first(), w);
        let t = s.drop_first();
        if alt_lang(s).contains(w) {
            if lang(s[0]).contains(w) {
            } else {
                let i = choose|i: int| 0 <= i < t.len() && #[trigger] lang(t[i]).contains(w);
                assert(t[i] == s[i + 1]);
                assert(lang(s[i + 1]).contains(w));
            }
        }
        if exists|i: int| 0 <= i < s.len() && #[trigger] lang(s[i]).contains(w) {
            let i = choose|i: int| 0 <= i < s.len() && #[trigger] lang(s[i]).contains(w);
            if i > 0 { assert(t[i - 1] == s[i]); assert(lang(t[i - 1]).contains(w)); }
        }
    }
}
pub proof fn lemma_alt_lang_perm(s: Seq<Expression>, t: Seq<Expression>)
    requires s.to_multiset() == t.to_multiset()
    ensures alt_lang(s) == alt_lang(t)
{
    assert forall|w: Word| alt_lang(s).contains(w) <==> alt_lang(t).contains(w) by {
        lemma_alt_lang_char(s, w);
        lemma_alt_lang_char(t, w);
        if alt_lang(s).contains(w) {
            let i = choose|i: int| 0 <= i < s.len() && #[trigger] lang(s[i]).contains(w);
            assert(s.to_multiset().count(s[i]) > 0) by { s.to_multiset_ensures(); assert(s.contains(s[i])); }
            t.to_multiset_ensures();
            assert(t.contains(s[i]));
            let j = choose|j: int| 0 <= j < t.len() && t[j] == s[i];
            assert(lang(t[j]).contains(w));
        }
        if alt_lang(t).contains(w) {
            let i = choose|i: int| 0 <= i < t.len() && #[trigger] lang(t[i]).contains(w);
            assert(t.to_multiset().count(t[i]) > 0) by { t.to_multiset_ensures(); assert(t.contains(t[i])); }
            s.to_multiset_ensures();
            assert(s.contains(t[i]));
            let j = choose|j: int| 0 <= j < s.len() && s[j] == t[i];
            assert(lang(s[j]).contains(w));
        }
    }
}

pub broadcast proof fn lemma_alt_lang_perm_b(s: Seq<Expression>, t: Seq<Expression>)
    requires #[trigger] s.to_multiset() == #[trigger] t.to_multiset()
    ensures alt_lang(s) == alt_lang(t)
{ lemma_alt_lang_perm(s, t); }
// ---- single-code-point operands (union merges them into a character class)
pub uninterp spec fn joined_chars(chars: Seq<String>) -> Seq<char>;        // Grapheme::value(): the concatenation of its strings
pub uninterp spec fn cc_spec(c: GraphemeCluster, escaped: bool) -> nat;    // GraphemeCluster::char_count
pub open spec fn charset_spec(e: Expression) -> Set<char> {
    match e {
        Expression::Literal(c, _, _) => if c.graphemes@.len() > 0 && joined_chars(c.graphemes@[0].chars@).len() > 0 { set![joined_chars(c.graphemes@[0].chars@)[0]] } else { Set::empty() },
        Expression::CharacterClass(cs, _) => cs@,
        _ => Set::empty(),
    }
}
pub open spec fn single_cp_spec(e: Expression) -> bool {
    match e {
        Expression::CharacterClass(_, _) => true,
        Expression::Literal(c, esc, _) => cc_spec(c, esc) == 1 && c.graphemes@.len() > 0 && c.graphemes@[0].max == 1,
        _ => false,
    }
}
// assumed of GraphemeCluster::char_count (a sum over the graphemes of the number of code points of their texts): a count of one needs a first grapheme with a non-empty text
pub broadcast axiom fn axiom_char_count_one(c: GraphemeCluster, escaped: bool)
    requires #[trigger] cc_spec(c, escaped) == 1
    ensures c.graphemes@.len() > 0, joined_chars(c.graphemes@[0].chars@).len() > 0;
pub broadcast proof fn lemma_lang_class(e: Expression)
    requires e is CharacterClass
    ensures #[trigger] lang(e) == class_lang(e->CharacterClass_0@)
{}
// THE semantic assumption about trie symbols that the class merge of `union` rests on: a literal that consists of exactly one code point
// (one grapheme, one character, not repeated) denotes exactly the one-character word of that code point.  (`glang` is uninterpreted.)
pub broadcast axiom fn axiom_single_code_point_literal(e: Expression)
    requires e is Literal, #[trigger] single_cp_spec(e)
    ensures lang(e) == class_lang(charset_spec(e));

pub proof fn lemma_alt_lang_empty()
    ensures alt_lang(Seq::<Expression>::empty()) == ISet::<Word>::empty()
{}
pub proof fn lemma_alt_lang_push(s: Seq<Expression>, e: Expression)
    ensures alt_lang(s.push(e)) == alt_lang(s).union(lang(e))
    decreases s.len()
{
    lemma_alt_lang_empty();
    if s.len() == 0 {
        assert(s.push(e).drop_first() =~= Seq::<Expression>::empty());
        assert(s =~= Seq::<Expression>::empty());
        assert(alt_lang(s.push(e)) =~= alt_lang(s).union(lang(e)));
    } else {
        lemma_alt_lang_push(s.drop_first(), e);
        assert(s.push(e).drop_first() =~= s.drop_first().push(e));
        assert(alt_lang(s.push(e)) =~= alt_lang(s).union(lang(e)));
    }
}
pub proof fn lemma_alt_take_step(s: Seq<Expression>, k: int)
    requires 0 <= k < s.len()
    ensures alt_lang(s.take(k + 1)) == alt_lang(s.take(k)).union(lang(s[k]))
{
    assert(s.take(k + 1) =~= s.take(k).push(s[k]));
    lemma_alt_lang_push(s.take(k), s[k]);
}

pub proof fn lemma_rev_take(v: Seq<Grapheme>, n: int)
    requires 0 <= n <= v.len()
    ensures v.reverse().take(n).reverse() =~= v.subrange(v.len() - n, v.len() as int)
{
    let l = v.reverse().take(n).reverse();
    let r = v.subrange(v.len() - n, v.len() as int);
    assert(l.len() == r.len());
    assert forall|i: int| 0 <= i < l.len() implies l[i] == r[i] by {
        assert(l[i] == v.reverse().take(n)[n - 1 - i]);
        assert(v.reverse()[n - 1 - i] == v[v.len() - 1 - (n - 1 - i)]);
    }
}

// length, in graphemes, of the words of an expression whose words all have the same length; for an alternation: of its first option
// (new_alternation sorts the options by descending length, so that is the longest one -- the sort key of C08's ordering mechanism)
pub open spec fn wlen(e: Expression) -> nat
    decreases e
{
    match e {
        Expression::Alternation(opts, _, _, _) => if opts@.len() > 0 { wlen(opts@[0]) } else { 0 },
        Expression::CharacterClass(_, _) => 1,          // a class matches exactly one character
        Expression::Concatenation(a, b, _, _, _) => wlen(*a) + wlen(*b),
        Expression::Literal(c, _, _) => c.graphemes@.len(),
        Expression::Repetition(x, _, _, _, _) => wlen(*x),
    }
}
// length of the text an expression matches, counted in graphemes of the test cases: a repeated substring counts with its repetitions.  This is what the sort key
// of alternatives has to be for C08 (longer alternatives first, so that a search never stops at a shorter test case that is a prefix of the one searched).
pub open spec fn glen(g: Grapheme) -> nat { g.chars@.len() * (g.max as nat) }
pub open spec fn lit_mlen(gs: Seq<Grapheme>) -> nat
    decreases gs.len()
{
    if gs.len() == 0 { 0 } else { glen(gs[0]) + lit_mlen(gs.drop_first()) }
}
pub open spec fn mlen(e: Expression) -> nat
    decreases e
{
    match e {
        Expression::Alternation(opts, _, _, _) => if opts@.len() > 0 { mlen(opts@[0]) } else { 0 },
        Expression::CharacterClass(_, _) => 1,
        Expression::Concatenation(a, b, _, _, _) => mlen(*a) + mlen(*b),
        Expression::Literal(c, _, _) => lit_mlen(c.graphemes@),
        Expression::Repetition(x, _, _, _, _) => mlen(*x),
    }
}
pub open spec fn alts_nonempty(e: Expression) -> bool
    decreases e
{
    match e {
        Expression::Alternation(opts, _, _, _) => opts@.len() > 0 && alts_nonempty(opts@[0]),
        Expression::Concatenation(a, b, _, _, _) => alts_nonempty(*a) && alts_nonempty(*b),
        Expression::Repetition(x, _, _, _, _) => alts_nonempty(*x),
        _ => true,
    }
}
