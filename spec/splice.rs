// Unit `splice` (C05): what a sequence of graphemes stands for, symbol by symbol.
// A symbol is the text of one element of `chars`; a unit with an exact count n (min == max == n) stands for its `chars` repeated n times.
pub open spec fn views(v: Seq<String>) -> Seq<Seq<char>> { Seq::new(v.len(), |i: int| v[i]@) }
pub open spec fn rep(s: Seq<Seq<char>>, n: nat) -> Seq<Seq<char>> decreases n { if n == 0 { Seq::empty() } else { rep(s, (n - 1) as nat) + s } }
pub open spec fn unit_flat(g: Grapheme) -> Seq<Seq<char>> { rep(views(g.chars@), g.min as nat) }
pub open spec fn flat(v: Seq<Grapheme>) -> Seq<Seq<char>> decreases v.len() { if v.len() == 0 { Seq::empty() } else { flat(v.drop_last()) + unit_flat(v.last()) } }

pub proof fn lemma_flat_append(a: Seq<Grapheme>, b: Seq<Grapheme>)
    ensures flat(a + b) =~= flat(a) + flat(b)
    decreases b.len()
{
    if b.len() == 0 { assert(a + b =~= a); }
    else {
        assert((a + b).drop_last() =~= a + b.drop_last());
        assert((a + b).last() == b.last());
        lemma_flat_append(a, b.drop_last());
    }
}
pub proof fn lemma_flat_one(g: Grapheme)
    ensures flat(seq![g]) =~= unit_flat(g)
{
    assert(seq![g].drop_last() =~= Seq::<Grapheme>::empty());
    assert(flat(seq![g].drop_last()) =~= Seq::<Seq<char>>::empty());
}
// replacing the range s..e of `old` by one unit that stands for the same symbols keeps what the whole sequence stands for
pub proof fn lemma_splice_keeps_flat(old: Seq<Grapheme>, s: int, e: int, u: Grapheme, new: Seq<Grapheme>)
    requires 0 <= s <= e <= old.len(), new == old.subrange(0, s).push(u) + old.subrange(e, old.len() as int), unit_flat(u) == flat(old.subrange(s, e))
    ensures flat(new) == flat(old)
{
    let a = old.subrange(0, s); let m = old.subrange(s, e); let z = old.subrange(e, old.len() as int);
    assert(old =~= (a + m) + z);
    lemma_flat_append(a + m, z); lemma_flat_append(a, m);
    assert(a.push(u) =~= a + seq![u]);
    lemma_flat_append(a + seq![u], z); lemma_flat_append(a, seq![u]); lemma_flat_one(u);
}
