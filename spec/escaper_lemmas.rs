// Lemmas of slice `escape_text` (unit escaper).  They speak about `listed()` / `esc_map()` / `lemma_list_facts()`, which are generated from the
// CHARS_TO_ESCAPE list found in the source; nothing here depends on the concrete list.
pub proof fn lemma_escape_round(c0: Seq<char>, before: Seq<char>, after: Seq<char>, k: int, char_to_escape: &&str)
    requires 0 <= k < listed().len(), before == fm(c0, set_map(listed(), k, bs_text())), char_to_escape@ == chars_to_escape()[k],
        after == fm(before, subst_fn(char_to_escape, "\\"@ + char_to_escape@)),
    ensures after == fm(c0, set_map(listed(), k + 1, bs_text()))
{
    lemma_list_facts();
    reveal_strlit("\\"); let p = char_to_escape@[0]; assert(char_to_escape@ =~= seq![p]); assert(p == listed()[k]);
    let f = subst_fn(char_to_escape, "\\"@ + char_to_escape@);
    let g = |c: char| if c == listed()[k] { bs_text()(listed()[k]) } else { seq![c] };
    assert forall|c: char| #[trigger] f(c) == g(c) by { if c == p { assert("\\"@ + char_to_escape@ =~= seq!['\\', c]); } }
    lemma_fm_ext(before, f, g);
    assert forall|c: char, i: int| 0 <= i < bs_text()(c).len() && listed().contains(#[trigger] bs_text()(c)[i]) implies bs_text()(c)[i] == c by {
        if i == 0 { let j = choose|j: int| 0 <= j < listed().len() && listed()[j] == '\\'; assert(listed()[j] != '\\'); }
    }
    lemma_set_step_self(c0, listed(), k, bs_text());
}
// the escaped text is a lone backslash only if the text itself was one (so the final `if character == "\\"` fires exactly for that input)
pub proof fn lemma_fm_only_backslash(s: Seq<char>)
    ensures (fm(s, esc_map()) =~= seq!['\\']) <==> (s =~= seq!['\\'])
{
    lemma_list_facts();
    reveal_with_fuel(fm, 3);
    if s.len() == 0 { }
    else {
        let c = s[0];
        assert(esc_map()(c).len() >= 1);
        if s.len() >= 2 { let d = s.drop_first()[0]; assert(esc_map()(d).len() >= 1); assert(fm(s.drop_first(), esc_map()).len() >= 1); }
        else {
            assert(s =~= seq![c]); assert(fm(s, esc_map()) =~= esc_map()(c));
            if listed().contains(c) { let j = choose|j: int| 0 <= j < listed().len() && listed()[j] == c; assert(listed()[j] != '\\'); }
        }
    }
}
