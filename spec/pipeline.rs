// Stage contracts of the pipeline (RegExp::from) -- spec and proof code only.
// words(cs): the union of the literal languages of the clusters = the language the automaton must accept (stage S1 -> S2).
pub open spec fn words(cs: Seq<GraphemeCluster>) -> Lang
    decreases cs.len()
{
    if cs.len() == 0 { ISet::empty() } else { words(cs.drop_last()).union(lit_lang(cs.last().graphemes@)) }
}
pub proof fn lemma_words_empty()
    ensures words(Seq::<GraphemeCluster>::empty()) == ISet::<Word>::empty()
{}
pub proof fn lemma_words_take_step(cs: Seq<GraphemeCluster>, k: int)
    requires 0 <= k < cs.len()
    ensures words(cs.take(k + 1)) == words(cs.take(k)).union(lit_lang(cs[k].graphemes@))
{
    assert(cs.take(k + 1).drop_last() =~= cs.take(k));
    assert(cs.take(k + 1).last() == cs[k]);
}
// uninterpreted stage functions (what the unverified stages compute); each has its own unit or is listed as assumed
pub uninterp spec fn dfa_lang(d: Dfa) -> Lang;                                             // language of the automaton
pub uninterp spec fn sort_spec(t: Seq<String>) -> Seq<String>;                             // RegExp::sort (unit misc: comparator + sort body)
pub uninterp spec fn caseconv_spec(t: Seq<String>) -> Seq<String>;                         // element-wise closure of convert_for_case_insensitive_matching (unit misc)
pub uninterp spec fn clusters_spec<'a>(t: Seq<String>, c: RegExpConfig) -> Seq<GraphemeCluster<'a>>; // RegExp::grapheme_clusters
pub open spec fn prepared(t: Seq<String>, c: RegExpConfig) -> Seq<String> {
    if c.is_case_insensitive_matching { sort_spec(caseconv_spec(t)) } else { sort_spec(t) }
}
