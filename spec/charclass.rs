// Unit `charclass` (C02): the ranges written inside a bracketed class denote exactly the members of the set.
// rank(c): the position of c in the ascending enumeration of all scalar values (CharRange::all()): the surrogate block U+D800..U+DFFF is skipped.
pub open spec fn rank(c: char) -> int { if (c as u32) < 0xD800 { c as u32 as int } else { (c as u32) as int - 0x800 } }
pub proof fn lemma_rank_strictly_monotone(a: char, b: char)
    ensures (a as u32) < (b as u32) <==> rank(a) < rank(b), a == b <==> rank(a) == rank(b)
{}
// `members` are the class members in ascending order, `pos[i] == rank(members[i])`.  If the ranks of members[lo..hi] are consecutive, the closed
// range members[lo]-members[hi-1] contains exactly those members: writing it as `first-last` neither adds nor loses a character.
pub open spec fn consecutive(pos: Seq<usize>, lo: int, hi: int) -> bool { forall|j: int| lo <= j && j + 1 < hi ==> pos[j + 1] == #[trigger] pos[j] + 1 }
pub proof fn lemma_consecutive_offsets(pos: Seq<usize>, lo: int, hi: int, j: int)
    requires 0 <= lo <= j < hi <= pos.len(), consecutive(pos, lo, hi)
    ensures pos[j] == pos[lo] + (j - lo)
    decreases j - lo
{
    if j > lo { lemma_consecutive_offsets(pos, lo, hi, j - 1); assert(pos[(j - 1) + 1] == pos[j - 1] + 1); }
}
pub proof fn lemma_range_is_exactly_the_run(members: Seq<char>, pos: Seq<usize>, lo: int, hi: int, x: char)
    requires 0 <= lo < hi <= members.len(), members.len() == pos.len(), forall|i: int| 0 <= i < members.len() ==> pos[i] == rank(#[trigger] members[i]),
             consecutive(pos, lo, hi), (members[lo] as u32) <= (x as u32) <= (members[hi - 1] as u32)
    ensures exists|j: int| lo <= j < hi && members[j] == x
{
    lemma_rank_strictly_monotone(members[lo], x); lemma_rank_strictly_monotone(x, members[hi - 1]);
    let j = lo + (rank(x) - rank(members[lo]));
    lemma_consecutive_offsets(pos, lo, hi, hi - 1);
    assert(lo <= j < hi);
    lemma_consecutive_offsets(pos, lo, hi, j);
    assert(rank(members[j]) == rank(x));
    lemma_rank_strictly_monotone(members[j], x);
}

// ---- the structure the two loops of format_character_class build ----
// subsets: a segmentation of the escaped members, in order; offset(k) = number of members in the subsets before subset k
pub open spec fn offset(s: Seq<Vec<&String>>, k: int) -> int decreases k { if k <= 0 { 0 } else { offset(s, k - 1) + s[k - 1]@.len() } }
pub open spec fn segmented(s: Seq<Vec<&String>>, n: int, esc: Seq<String>, pos: Seq<usize>) -> bool {
    &&& forall|k: int, j: int| 0 <= k < n && 0 <= j < s[k]@.len() ==> offset(s, k) + j < esc.len() && *#[trigger] s[k]@[j] == esc[offset(s, k) + j]
    &&& forall|k: int| 0 <= k < n ==> consecutive(pos, offset(s, k), offset(s, k) + (#[trigger] s[k])@.len())

    // no empty subset (unless the class is empty)
    &&& forall|k: int| 0 <= k < n ==> (#[trigger] s[k])@.len() >= 1 || esc.len() == 0
}
// what one subset is written as: its members one by one, or -- a subset is a run of consecutive members -- `first-last`.  Both forms denote the same
// set (lemma_range_is_exactly_the_run), so WHICH form is chosen for which length is left to the code (`as_range[k]` records its choice for subset k).
pub open spec fn members_text(sub: Seq<&String>) -> Seq<Seq<char>> { Seq::new(sub.len(), |i: int| sub[i]@) }
pub open spec fn range_text(sub: Seq<&String>, hyphen: Seq<char>) -> Seq<Seq<char>> { seq![sub[0]@ + hyphen + sub[sub.len() - 1]@] }
pub open spec fn piece(sub: Seq<&String>, hyphen: Seq<char>, as_range: bool) -> Seq<Seq<char>> { if as_range { range_text(sub, hyphen) } else { members_text(sub) } }
pub open spec fn pieces(s: Seq<Vec<&String>>, n: int, hyphen: Seq<char>, as_range: Seq<bool>) -> Seq<Seq<char>> decreases n {
    if n <= 0 { Seq::empty() } else { pieces(s, n - 1, hyphen, as_range) + piece(s[n - 1]@, hyphen, as_range[n - 1]) }
}
pub proof fn lemma_pieces_prefix(s: Seq<Vec<&String>>, n: int, hyphen: Seq<char>, a: Seq<bool>, x: bool)
    requires 0 <= n <= a.len()
    ensures pieces(s, n, hyphen, a.push(x)) == pieces(s, n, hyphen, a)
    decreases n
{
    if n > 0 { lemma_pieces_prefix(s, n - 1, hyphen, a, x); assert(a.push(x)[n - 1] == a[n - 1]); }
}
pub open spec fn texts(v: Seq<String>) -> Seq<Seq<char>> { Seq::new(v.len(), |i: int| v[i]@) }
pub proof fn lemma_offset_same(s: Seq<Vec<&String>>, x: Vec<&String>, k: int)
    requires 0 <= k <= s.len()
    ensures offset(s.push(x), k) == offset(s, k)
    decreases k
{
    if k > 0 { lemma_offset_same(s, x, k - 1); assert(s.push(x)[k - 1] == s[k - 1]); }
}
pub proof fn lemma_offset_push(s: Seq<Vec<&String>>, x: Vec<&String>)
    ensures offset(s.push(x), s.len() as int + 1) == offset(s, s.len() as int) + x@.len(),
            forall|k: int| 0 <= k <= s.len() ==> #[trigger] offset(s.push(x), k) == offset(s, k)
{
    lemma_offset_same(s, x, s.len() as int);
    assert(s.push(x)[s.len() as int] == x);
    assert forall|k: int| 0 <= k <= s.len() implies #[trigger] offset(s.push(x), k) == offset(s, k) by { lemma_offset_same(s, x, k); }
}
pub proof fn lemma_segmented_push(s: Seq<Vec<&String>>, x: Vec<&String>, esc: Seq<String>, pos: Seq<usize>)
    requires segmented(s, s.len() as int, esc, pos), x@.len() >= 1, offset(s, s.len() as int) + x@.len() <= esc.len(),
             forall|j: int| 0 <= j < x@.len() ==> *#[trigger] x@[j] == esc[offset(s, s.len() as int) + j],
             consecutive(pos, offset(s, s.len() as int), offset(s, s.len() as int) + x@.len())
    ensures segmented(s.push(x), s.len() as int + 1, esc, pos)
{
    lemma_offset_push(s, x);
    let t = s.push(x);
    assert(t.len() == s.len() + 1);
    assert forall|k: int| 0 <= k <= s.len() implies offset(t, k) == offset(s, k) by { lemma_offset_same(s, x, k); }
    assert forall|k: int, j: int| 0 <= k < t.len() && 0 <= j < t[k]@.len() implies offset(t, k) + j < esc.len() && *#[trigger] t[k]@[j] == esc[offset(t, k) + j] by {
        if k < s.len() { assert(t[k] == s[k]); assert(*s[k]@[j] == esc[offset(s, k) + j]); } else { assert(t[k] == x); }
    }
    assert forall|k: int| 0 <= k < t.len() implies consecutive(pos, offset(t, k), offset(t, k) + (#[trigger] t[k])@.len()) by {
        if k < s.len() { assert(t[k] == s[k]); assert(consecutive(pos, offset(s, k), offset(s, k) + s[k]@.len())); } else { assert(t[k] == x); }
    }
    assert forall|k: int| 0 <= k < t.len() implies (#[trigger] t[k])@.len() >= 1 || esc.len() == 0 by {
        if k < s.len() { assert(t[k] == s[k]); assert(s[k]@.len() >= 1 || esc.len() == 0); } else { assert(t[k] == x); }
    }
}
pub proof fn lemma_segmented_push_empty(s: Seq<Vec<&String>>, x: Vec<&String>, esc: Seq<String>, pos: Seq<usize>)
    requires s.len() == 0, x@.len() == 0, esc.len() == 0
    ensures segmented(s.push(x), 1, esc, pos)
{
    let t = s.push(x);
    assert forall|k: int| 0 <= k < 1 implies consecutive(pos, offset(t, k), offset(t, k) + (#[trigger] t[k])@.len()) by { assert(t[k] == x); }
}
