// Unit `repeats` (C05/C13/C16-S1): what a grapheme stands for once repetitions are nested.
// Display for Grapheme prints `repetitions` when that list is not empty and `chars` otherwise (grapheme.rs, `let mut value = ..`), followed by
// the quantifier {min}: a grapheme with min == max == n therefore stands for its printed content repeated n times.
pub open spec fn deep(g: Grapheme) -> Seq<Seq<char>>
    decreases g, 0nat
{
    if g.repetitions@.len() == 0 { unit_flat(g) } else { rep(deep_upto(g.repetitions@, g.repetitions@.len()), g.min as nat) }
}
pub open spec fn deep_upto(v: Seq<Grapheme>, n: nat) -> Seq<Seq<char>>
    decreases v, n
{
    if n == 0 || n > v.len() { Seq::empty() } else { deep_upto(v, (n - 1) as nat) + deep(v[n - 1]) }
}
pub open spec fn deepflat(v: Seq<Grapheme>) -> Seq<Seq<char>> { deep_upto(v, v.len()) }
// a grapheme as Grapheme::from makes it: one symbol, exactly once, nothing nested
pub open spec fn plain(g: Grapheme) -> bool { g.chars@.len() == 1 && g.min == 1 && g.max == 1 && g.repetitions@.len() == 0 }
pub open spec fn all_plain(v: Seq<Grapheme>) -> bool { forall|k: int| 0 <= k < v.len() ==> plain(#[trigger] v[k]) }
pub open spec fn no_nesting(v: Seq<Grapheme>) -> bool { forall|k: int| 0 <= k < v.len() ==> (#[trigger] v[k]).repetitions@.len() == 0 }

pub proof fn lemma_deep_upto_pointwise(a: Seq<Grapheme>, b: Seq<Grapheme>, n: nat)
    requires n <= a.len(), n <= b.len(), forall|j: int| 0 <= j < n ==> deep(#[trigger] a[j]) == deep(b[j])
    ensures deep_upto(a, n) == deep_upto(b, n)
    decreases n
{
    if n > 0 { lemma_deep_upto_pointwise(a, b, (n - 1) as nat); }
}
pub proof fn lemma_flat_is_deep_upto(v: Seq<Grapheme>, n: nat)
    requires n <= v.len(), no_nesting(v)
    ensures flat(v.subrange(0, n as int)) == deep_upto(v, n)
    decreases n
{
    if n == 0 { assert(v.subrange(0, 0) =~= Seq::<Grapheme>::empty()); }
    else {
        lemma_flat_is_deep_upto(v, (n - 1) as nat);
        assert(v.subrange(0, n as int).drop_last() =~= v.subrange(0, n - 1));
        assert(v.subrange(0, n as int).last() == v[n - 1]);
        assert(v[n - 1].repetitions@.len() == 0);
        let sub = v.subrange(0, n as int);
        assert(flat(sub) == flat(sub.drop_last()) + unit_flat(sub.last()));
        assert(deep(v[n - 1]) == unit_flat(v[n - 1]));
        assert(deep_upto(v, n) == deep_upto(v, (n - 1) as nat) + deep(v[n - 1]));
    }
}
pub proof fn lemma_flat_is_deepflat(v: Seq<Grapheme>)
    requires no_nesting(v)
    ensures flat(v) == deepflat(v)
{
    lemma_flat_is_deep_upto(v, v.len()); assert(v.subrange(0, v.len() as int) =~= v);
}
// a list of plain graphemes stands for its symbols, one each
pub proof fn lemma_flat_of_plain(v: Seq<Grapheme>)
    requires all_plain(v)
    ensures flat(v) =~= Seq::new(v.len(), |i: int| v[i].chars@[0]@)
    decreases v.len()
{
    if v.len() > 0 {
        lemma_flat_of_plain(v.drop_last());
        let g = v.last();
        assert(rep(views(g.chars@), 1) =~= views(g.chars@)) by { assert(rep(views(g.chars@), 0) =~= Seq::<Seq<char>>::empty()); }
        assert(views(g.chars@) =~= seq![g.chars@[0]@]);
    }
}

// C13: no quantifier (a grapheme printed once), or a unit that spans at least the configured number of symbols and has an exact count that exceeds the
// configured minimum of repetitions -- at every nesting depth
pub open spec fn printed_once(g: Grapheme) -> bool { g.min == 1 && g.max == 1 }
pub open spec fn unit_ok(g: Grapheme, c: RegExpConfig) -> bool { g.chars@.len() >= c.minimum_substring_length && g.min == g.max && g.max > c.minimum_repetitions }
pub open spec fn deep_ok(g: Grapheme, c: RegExpConfig) -> bool
    decreases g
{
    (printed_once(g) || unit_ok(g, c)) && forall|i: int| 0 <= i < g.repetitions@.len() ==> deep_ok(#[trigger] g.repetitions@[i], c)
}
pub open spec fn all_deep_ok(v: Seq<Grapheme>, c: RegExpConfig) -> bool { forall|k: int| 0 <= k < v.len() ==> deep_ok(#[trigger] v[k], c) }
