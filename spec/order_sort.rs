// Whole-function contract of RegExp::sort (C10): after `sort(); dedup(); sort_by(len-lex)` the list is THE strictly (length, lexicographic)-sorted
// arrangement of the set of texts it held before.  std is used through three stand-ins that say what the documentation says:
//   sort()      a permutation of the list, non-decreasing in String's order
//   dedup()     a subsequence (order kept) with the same set of elements and no two adjacent elements equal
//   sort_by(f)  a permutation of the list, non-decreasing with respect to f
pub open spec fn texts(v: Seq<String>) -> Seq<Seq<char>> { Seq::new(v.len(), |i: int| v[i]@) }
pub open spec fn is_perm_map(p: Seq<int>, n: int) -> bool {
    p.len() == n && (forall|i: int| 0 <= i < n ==> 0 <= #[trigger] p[i] < n) && (forall|i: int, j: int| 0 <= i < j < n ==> #[trigger] p[i] != #[trigger] p[j])
    && (forall|k: int| 0 <= k < n ==> #[trigger] hit(p, n, k))
}
pub open spec fn hit(p: Seq<int>, n: int, k: int) -> bool { exists|i: int| 0 <= i < n && #[trigger] p[i] == k }
pub open spec fn permutation_of(a: Seq<Seq<char>>, b: Seq<Seq<char>>) -> bool { exists|p: Seq<int>| #[trigger] is_perm_map(p, b.len() as int) && a.len() == b.len() && forall|i: int| 0 <= i < a.len() ==> a[i] == b[p[i]] }
pub open spec fn sorted_by_str(a: Seq<Seq<char>>) -> bool { forall|i: int, j: int| 0 <= i < j < a.len() ==> str_cmp(#[trigger] a[i], #[trigger] a[j]) != Ordering::Greater }
pub open spec fn sorted_by_len_lex(a: Seq<Seq<char>>) -> bool { forall|i: int, j: int| 0 <= i < j < a.len() ==> len_lex(#[trigger] a[i], #[trigger] a[j]) != Ordering::Greater }
pub open spec fn deduped_from(b: Seq<Seq<char>>, a: Seq<Seq<char>>) -> bool {
    (exists|q: Seq<int>| #[trigger] q.len() == b.len() && (forall|k: int| 0 <= k < b.len() ==> 0 <= #[trigger] q[k] < a.len() && b[k] == a[q[k]]) && (forall|k: int, l: int| 0 <= k < l < b.len() ==> #[trigger] q[k] < #[trigger] q[l]))
    && (forall|i: int| 0 <= i < a.len() ==> #[trigger] kept(b, a[i]))
    && (forall|k: int| 0 <= k && k + 1 < b.len() ==> #[trigger] b[k] != b[k + 1])
}
pub open spec fn kept(b: Seq<Seq<char>>, x: Seq<char>) -> bool { exists|k: int| 0 <= k < b.len() && #[trigger] b[k] == x }
pub open spec fn no_dups(a: Seq<Seq<char>>) -> bool { forall|i: int, j: int| 0 <= i < j < a.len() ==> #[trigger] a[i] != #[trigger] a[j] }

pub proof fn lemma_perm_same_set(a: Seq<Seq<char>>, b: Seq<Seq<char>>)
    requires permutation_of(a, b)
    ensures a.to_set() == b.to_set()
{
    let p = choose|p: Seq<int>| #[trigger] is_perm_map(p, b.len() as int) && a.len() == b.len() && forall|i: int| 0 <= i < a.len() ==> a[i] == b[p[i]];
    assert forall|x: Seq<char>| a.to_set().contains(x) <==> b.to_set().contains(x) by {
        if a.to_set().contains(x) { let i = choose|i: int| 0 <= i < a.len() && a[i] == x; assert(b[p[i]] == x); assert(b.contains(x)); }
        if b.to_set().contains(x) { let k = choose|k: int| 0 <= k < b.len() && b[k] == x; assert(hit(p, b.len() as int, k)); let i = choose|i: int| 0 <= i < b.len() && #[trigger] p[i] == k; assert(a[i] == x); assert(a.contains(x)); }
    }
    assert(a.to_set() =~= b.to_set());
}
pub proof fn lemma_perm_keeps_no_dups(a: Seq<Seq<char>>, b: Seq<Seq<char>>)
    requires permutation_of(a, b), no_dups(b)
    ensures no_dups(a)
{
    let p = choose|p: Seq<int>| #[trigger] is_perm_map(p, b.len() as int) && a.len() == b.len() && forall|i: int| 0 <= i < a.len() ==> a[i] == b[p[i]];
    assert forall|i: int, j: int| 0 <= i < j < a.len() implies #[trigger] a[i] != #[trigger] a[j] by {
        assert(p[i] != p[j]);
        if p[i] < p[j] { assert(b[p[i]] != b[p[j]]); } else { assert(b[p[j]] != b[p[i]]); }
    }
}
pub proof fn lemma_dedup_of_sorted(b: Seq<Seq<char>>, a: Seq<Seq<char>>)
    requires deduped_from(b, a), sorted_by_str(a)
    ensures no_dups(b), b.to_set() == a.to_set()
{
    broadcast use axiom_str_cmp_total;
    let q = choose|q: Seq<int>| #[trigger] q.len() == b.len() && (forall|k: int| 0 <= k < b.len() ==> 0 <= #[trigger] q[k] < a.len() && b[k] == a[q[k]]) && (forall|k: int, l: int| 0 <= k < l < b.len() ==> #[trigger] q[k] < #[trigger] q[l]);
    // b is non-decreasing (a subsequence of a non-decreasing list) and adjacent elements differ: strictly increasing
    assert forall|k: int, l: int| 0 <= k < l < b.len() implies str_cmp(#[trigger] b[k], #[trigger] b[l]) == Ordering::Less by { lemma_strict_run(b, a, q, k, l); }
    assert forall|i: int, j: int| 0 <= i < j < b.len() implies #[trigger] b[i] != #[trigger] b[j] by { assert(str_cmp(b[i], b[j]) == Ordering::Less); }
    assert forall|x: Seq<char>| b.to_set().contains(x) <==> a.to_set().contains(x) by {
        if b.to_set().contains(x) { let k = choose|k: int| 0 <= k < b.len() && b[k] == x; assert(a[q[k]] == x); assert(a.contains(x)); }
        if a.to_set().contains(x) { let i = choose|i: int| 0 <= i < a.len() && a[i] == x; assert(kept(b, a[i])); let k = choose|k: int| 0 <= k < b.len() && #[trigger] b[k] == a[i]; assert(b.contains(x)); }
    }
    assert(b.to_set() =~= a.to_set());
}
pub proof fn lemma_strict_run(b: Seq<Seq<char>>, a: Seq<Seq<char>>, q: Seq<int>, k: int, l: int)
    requires 0 <= k < l < b.len(), q.len() == b.len(), sorted_by_str(a),
             forall|m: int| 0 <= m < b.len() ==> 0 <= #[trigger] q[m] < a.len() && b[m] == a[q[m]],
             forall|m: int, n: int| 0 <= m < n < b.len() ==> #[trigger] q[m] < #[trigger] q[n],
             forall|m: int| 0 <= m && m + 1 < b.len() ==> #[trigger] b[m] != b[m + 1]
    ensures str_cmp(b[k], b[l]) == Ordering::Less
    decreases l - k
{
    broadcast use axiom_str_cmp_total;
    assert(q[l - 1] < q[l]); assert(str_cmp(a[q[l - 1]], a[q[l]]) != Ordering::Greater);
    assert(b[l - 1] != b[(l - 1) + 1]);
    assert(str_cmp(b[l - 1], b[l]) == Ordering::Less);
    if k < l - 1 { lemma_strict_run(b, a, q, k, l - 1); axiom_str_cmp_trans(b[k], b[l - 1], b[l]); }
}
pub proof fn lemma_sorted_no_dups_is_strict(c: Seq<Seq<char>>)
    requires sorted_by_len_lex(c), no_dups(c)
    ensures strictly_sorted(c)
{
    assert forall|i: int, j: int| 0 <= i < j < c.len() implies len_lex(#[trigger] c[i], #[trigger] c[j]) == Ordering::Less by { len_lex_no_ties(c[i], c[j]); }
}
