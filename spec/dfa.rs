// Spec predicates and lemmas for unit dfa (DESIGN.md Appendix D).
pub open spec fn seq_is(a: Seq<&&HashSet<State>>, b: Seq<&HashSet<State>>) -> bool { a.len() == b.len() && forall|j: int| 0 <= j < a.len() ==> **#[trigger] a[j] == *b[j] }
pub open spec fn union_upto(p: Seq<&HashSet<State>>, k: int) -> Set<State>
    decreases k
{
    if k <= 0 { Set::empty() } else { union_upto(p, k - 1).union(p[k - 1]@) }
}
pub proof fn lemma_union_upto_mono(p: Seq<&HashSet<State>>, k: int, n: int)
    requires 0 <= k < n <= p.len()
    ensures p[k]@.subset_of(union_upto(p, n))
    decreases n
{
    if k < n - 1 { lemma_union_upto_mono(p, k, n - 1); }
}
pub open spec fn pairwise_disjoint(p: Seq<&HashSet<State>>) -> bool {
    forall|i: int, j: int| 0 <= i < j < p.len() ==> (#[trigger] p[i])@.disjoint((#[trigger] p[j])@)
}
pub proof fn lemma_disjoint_fresh(p: Seq<&HashSet<State>>, k: int, ks: Seq<State>, q: int)
    requires pairwise_disjoint(p), 0 <= k < p.len(), ks.to_set() == p[k]@, ks.no_duplicates(), 0 <= q < ks.len()
    ensures !union_upto(p, k).contains(ks[q]), !keys_upto(ks, q).contains(ks[q])
    decreases k
{
    assert(p[k]@.contains(ks[q])) by { assert(ks.to_set().contains(ks[q])); }
    lemma_union_upto_disjoint(p, k, k, ks[q]);
    if keys_upto(ks, q).contains(ks[q]) {
        let b = ks.subrange(0, q);
        let i = choose|i: int| 0 <= i < b.len() && b[i] == ks[q];
        assert(ks[i] == ks[q]);
    }
}
pub proof fn lemma_union_upto_disjoint(p: Seq<&HashSet<State>>, n: int, k: int, x: State)
    requires pairwise_disjoint(p), 0 <= n <= k < p.len(), p[k]@.contains(x)
    ensures !union_upto(p, n).contains(x)
    decreases n
{
    if n > 0 {
        lemma_union_upto_disjoint(p, n - 1, k, x);
        assert(p[n - 1]@.disjoint(p[k]@));
    }
}
pub proof fn lemma_keys_upto_step(ks: Seq<State>, q: int)
    requires 0 <= q < ks.len()
    ensures keys_upto(ks, q + 1) == keys_upto(ks, q).insert(ks[q]),
        q + 1 == ks.len() ==> keys_upto(ks, q + 1) == ks.to_set(),
{
    let a = ks.subrange(0, q + 1); let b = ks.subrange(0, q);
    assert forall|x: State| a.to_set().contains(x) <==> b.to_set().insert(ks[q]).contains(x) by {
        if a.contains(x) { let i = choose|i: int| 0 <= i < a.len() && a[i] == x; if i < q { assert(b[i] == x); } }
        if b.contains(x) { let i = choose|i: int| 0 <= i < b.len() && b[i] == x; assert(a[i] == x); }
        assert(a[q] == ks[q]);
    }
    assert(a.to_set() =~= b.to_set().insert(ks[q]));
    if q + 1 == ks.len() { assert(a =~= ks); }
}
pub open spec fn keys_upto(it: Seq<State>, q: int) -> Set<State> { it.subrange(0, q).to_set() }
pub open spec fn in_classes(p: Seq<&HashSet<State>>, upto: int, s: State) -> bool {
    exists|j: int| 0 <= j < upto && j < p.len() && (#[trigger] p[j])@.contains(s)
}
pub open spec fn dom_ok(m: Map<State, State>, nodes: Set<State>) -> bool {
    forall|s: State| #[trigger] m.contains_key(s) ==> nodes.contains(m[s])
}
// what the current code does guarantee: per class there is a member (the representative) all of whose
// out-edges are copied, and whose accepting successors have accepting images
pub open spec fn rep_copied(r: State, m: Map<State, State>, old_e: Map<(State, State), Grapheme>, new_e: Map<(State, State), Grapheme>, old_f: Set<usize>, new_f: Set<usize>) -> bool {
    forall|t: State| #[trigger] old_e.contains_key((r, t)) ==> new_e.contains_key((m[r], m[t])) && (old_f.contains(t.ix as usize) ==> new_f.contains(m[t].ix as usize))
}
pub open spec fn class_has_rep(c: Set<State>, m: Map<State, State>, old_e: Map<(State, State), Grapheme>, new_e: Map<(State, State), Grapheme>, old_f: Set<usize>, new_f: Set<usize>) -> bool {
    exists|r: State| #![trigger rep_copied(r, m, old_e, new_e, old_f, new_f)] c.contains(r) && rep_copied(r, m, old_e, new_e, old_f, new_f)
}
pub open spec fn reps_copied(p: Seq<&HashSet<State>>, upto: int, m: Map<State, State>, old_e: Map<(State, State), Grapheme>, new_e: Map<(State, State), Grapheme>, old_f: Set<usize>, new_f: Set<usize>) -> bool {
    forall|j: int| 0 <= j < upto ==> #[trigger] class_has_rep(p[j]@, m, old_e, new_e, old_f, new_f)
}
pub open spec fn nb_ok(els: Seq<State>, src: State, old_e: Map<(State, State), Grapheme>) -> bool {
    forall|t: State| els.contains(t) <==> #[trigger] old_e.contains_key((src, t))
}
pub open spec fn processed(els: Seq<State>, k: int, src: State, m: Map<State, State>, new_e: Map<(State, State), Grapheme>, old_f: Set<usize>, new_f: Set<usize>) -> bool {
    forall|i: int| 0 <= i < k ==> new_e.contains_key((m[src], m[#[trigger] els[i]])) && (old_f.contains(els[i].ix as usize) ==> new_f.contains(m[els[i]].ix as usize))
}
pub proof fn lemma_rep_mono(r: State, m: Map<State, State>, old_e: Map<(State, State), Grapheme>, e0: Map<(State, State), Grapheme>, e1: Map<(State, State), Grapheme>, old_f: Set<usize>, f0: Set<usize>, f1: Set<usize>)
    requires rep_copied(r, m, old_e, e0, old_f, f0), e0.dom().subset_of(e1.dom()), f0.subset_of(f1)
    ensures rep_copied(r, m, old_e, e1, old_f, f1)
{
    assert forall|t: State| #[trigger] old_e.contains_key((r, t)) implies e1.contains_key((m[r], m[t])) && (old_f.contains(t.ix as usize) ==> f1.contains(m[t].ix as usize)) by {
        assert(e0.dom().contains((m[r], m[t])));
    }
}
pub proof fn lemma_reps_mono(p: Seq<&HashSet<State>>, upto: int, m: Map<State, State>, old_e: Map<(State, State), Grapheme>, e0: Map<(State, State), Grapheme>, e1: Map<(State, State), Grapheme>, old_f: Set<usize>, f0: Set<usize>, f1: Set<usize>)
    requires reps_copied(p, upto, m, old_e, e0, old_f, f0), e0.dom().subset_of(e1.dom()), f0.subset_of(f1)
    ensures reps_copied(p, upto, m, old_e, e1, old_f, f1)
{
    assert forall|j: int| 0 <= j < upto implies #[trigger] class_has_rep(p[j]@, m, old_e, e1, old_f, f1) by {
        assert(class_has_rep(p[j]@, m, old_e, e0, old_f, f0));
        let r = choose|r: State| #![trigger rep_copied(r, m, old_e, e0, old_f, f0)] p[j]@.contains(r) && rep_copied(r, m, old_e, e0, old_f, f0);
        lemma_rep_mono(r, m, old_e, e0, e1, old_f, f0, f1);
        assert(p[j]@.contains(r) && rep_copied(r, m, old_e, e1, old_f, f1));
    }
}
pub proof fn lemma_processed_mono(els: Seq<State>, k: int, src: State, m: Map<State, State>, e0: Map<(State, State), Grapheme>, e1: Map<(State, State), Grapheme>, old_f: Set<usize>, f0: Set<usize>, f1: Set<usize>)
    requires processed(els, k, src, m, e0, old_f, f0), e0.dom().subset_of(e1.dom()), f0.subset_of(f1)
    ensures processed(els, k, src, m, e1, old_f, f1)
{
    assert forall|i: int| 0 <= i < k implies e1.contains_key((m[src], m[#[trigger] els[i]])) && (old_f.contains(els[i].ix as usize) ==> f1.contains(m[els[i]].ix as usize)) by {
        assert(e0.dom().contains((m[src], m[els[i]])));
    }
}
pub broadcast proof fn lemma_processed_all(els: Seq<State>, k: int, src: State, m: Map<State, State>, old_e: Map<(State, State), Grapheme>, new_e: Map<(State, State), Grapheme>, old_f: Set<usize>, new_f: Set<usize>)
    requires #[trigger] nb_ok(els, src, old_e), #[trigger] processed(els, k, src, m, new_e, old_f, new_f), k == els.len()
    ensures rep_copied(src, m, old_e, new_e, old_f, new_f)
{
    assert forall|t: State| #[trigger] old_e.contains_key((src, t)) implies new_e.contains_key((m[src], m[t])) && (old_f.contains(t.ix as usize) ==> new_f.contains(m[t].ix as usize)) by {
        assert(els.contains(t));
        let i = choose|i: int| 0 <= i < els.len() && els[i] == t;
        assert(els[i] == t);
    }
}
pub open spec fn finals_sound(m: Map<State, State>, old_f: Set<usize>, new_f: Set<usize>) -> bool {
    forall|s: State| #[trigger] m.contains_key(s) && old_f.contains(s.ix as usize) ==> new_f.contains(m[s].ix as usize)
}
pub open spec fn finals_exact(m: Map<State, State>, old_f: Set<usize>, new_f: Set<usize>) -> bool {
    forall|u: usize| #[trigger] new_f.contains(u) ==> exists|s: State| #[trigger] m.contains_key(s) && old_f.contains(s.ix as usize) && m[s].ix as usize == u
}

// ---- trie insertion (Dfa::insert / return_next_state / find_next_state / add_new_state) ----
// value() of a grapheme: the concatenation of its chars (std join, uninterpreted)
pub uninterp spec fn joined(chars: Seq<String>) -> Seq<char>;
// two labels are the same trie symbol: same text, same repetition bounds (flags are presentational and equal within one build)
pub open spec fn label_eq(a: Grapheme, b: Grapheme) -> bool { joined(a.chars@) == joined(b.chars@) && a.min == b.min && a.max == b.max }
// data invariant of labels before repetition ranges are merged: exact counts only
pub open spec fn exact_label(g: Grapheme) -> bool { g.min == g.max && g.max >= 1 }
pub open spec fn edges_exact(e: Map<(State, State), Grapheme>) -> bool { forall|a: State, b: State| #[trigger] e.contains_key((a, b)) ==> exact_label(e[(a, b)]) }
pub open spec fn edges_closed(e: Map<(State, State), Grapheme>, nodes: Set<State>) -> bool { forall|a: State, b: State| #[trigger] e.contains_key((a, b)) ==> nodes.contains(a) && nodes.contains(b) }
// a path from s to t whose edge labels spell gs
pub open spec fn path(e: Map<(State, State), Grapheme>, s: State, gs: Seq<Grapheme>, t: State) -> bool
    decreases gs.len()
{
    if gs.len() == 0 { s == t } else { exists|u: State| #[trigger] e.contains_key((s, u)) && label_eq(e[(s, u)], gs[0]) && path(e, u, gs.drop_first(), t) }
}
pub proof fn lemma_path_snoc(e: Map<(State, State), Grapheme>, s: State, gs: Seq<Grapheme>, t: State, g: Grapheme, u: State)
    requires path(e, s, gs, t), e.contains_key((t, u)), label_eq(e[(t, u)], g)
    ensures path(e, s, gs.push(g), u)
    decreases gs.len()
{
    if gs.len() == 0 {
        assert(gs.push(g).drop_first() =~= Seq::<Grapheme>::empty());
        assert(path(e, u, gs.push(g).drop_first(), u));
        assert(e.contains_key((s, u)) && label_eq(e[(s, u)], gs.push(g)[0]));
    } else {
        let v = choose|v: State| #[trigger] e.contains_key((s, v)) && label_eq(e[(s, v)], gs[0]) && path(e, v, gs.drop_first(), t);
        lemma_path_snoc(e, v, gs.drop_first(), t, g, u);
        assert(gs.push(g).drop_first() =~= gs.drop_first().push(g));
        assert(e.contains_key((s, v)) && label_eq(e[(s, v)], gs.push(g)[0]));
    }
}
pub open spec fn submap(e0: Map<(State, State), Grapheme>, e1: Map<(State, State), Grapheme>) -> bool {
    forall|a: State, b: State| #[trigger] e0.contains_key((a, b)) ==> e1.contains_key((a, b)) && e1[(a, b)] == e0[(a, b)]
}
pub proof fn lemma_path_mono(e0: Map<(State, State), Grapheme>, e1: Map<(State, State), Grapheme>, s: State, gs: Seq<Grapheme>, t: State)
    requires path(e0, s, gs, t), submap(e0, e1)
    ensures path(e1, s, gs, t)
    decreases gs.len()
{
    if gs.len() > 0 {
        let v = choose|v: State| #[trigger] e0.contains_key((s, v)) && label_eq(e0[(s, v)], gs[0]) && path(e0, v, gs.drop_first(), t);
        lemma_path_mono(e0, e1, v, gs.drop_first(), t);
        assert(e1.contains_key((s, v)) && label_eq(e1[(s, v)], gs[0]));
    }
}

pub open spec fn scanned(els: Seq<State>, k: int, e: Map<(State, State), Grapheme>, cur: State, g: Grapheme) -> bool {
    forall|i: int| 0 <= i < k ==> !label_eq(e[(cur, #[trigger] els[i])], g)
}
pub open spec fn label_absent(e: Map<(State, State), Grapheme>, cur: State, g: Grapheme) -> bool {
    forall|t: State| #[trigger] e.contains_key((cur, t)) ==> !label_eq(e[(cur, t)], g)
}
pub broadcast proof fn lemma_scanned_all(els: Seq<State>, k: int, e: Map<(State, State), Grapheme>, cur: State, g: Grapheme)
    requires #[trigger] nb_ok(els, cur, e), #[trigger] scanned(els, k, e, cur, g), k == els.len()
    ensures label_absent(e, cur, g)
{
    assert forall|t: State| #[trigger] e.contains_key((cur, t)) implies !label_eq(e[(cur, t)], g) by {
        assert(els.contains(t));
        let i = choose|i: int| 0 <= i < els.len() && els[i] == t;
        assert(els[i] == t);
    }
}

// ---- soundness view of the trie (C01): an edge label may cover more repetition counts than the inserted symbol, never fewer
pub open spec fn label_covers(e: Grapheme, g: Grapheme) -> bool { joined(e.chars@) == joined(g.chars@) && e.min <= g.min && g.max <= e.max }
pub open spec fn edges_cover(e0: Map<(State, State), Grapheme>, e1: Map<(State, State), Grapheme>) -> bool {
    forall|a: State, b: State| #[trigger] e0.contains_key((a, b)) ==> e1.contains_key((a, b)) && label_covers(e1[(a, b)], e0[(a, b)])
}
pub open spec fn path_cov(e: Map<(State, State), Grapheme>, s: State, gs: Seq<Grapheme>, t: State) -> bool
    decreases gs.len()
{
    if gs.len() == 0 { s == t } else { exists|u: State| #[trigger] e.contains_key((s, u)) && label_covers(e[(s, u)], gs[0]) && path_cov(e, u, gs.drop_first(), t) }
}
pub proof fn lemma_path_cov_snoc(e: Map<(State, State), Grapheme>, s: State, gs: Seq<Grapheme>, t: State, g: Grapheme, u: State)
    requires path_cov(e, s, gs, t), e.contains_key((t, u)), label_covers(e[(t, u)], g)
    ensures path_cov(e, s, gs.push(g), u)
    decreases gs.len()
{
    if gs.len() == 0 {
        assert(gs.push(g).drop_first() =~= Seq::<Grapheme>::empty());
        assert(path_cov(e, u, gs.push(g).drop_first(), u));
        assert(e.contains_key((s, u)) && label_covers(e[(s, u)], gs.push(g)[0]));
    } else {
        let v = choose|v: State| #[trigger] e.contains_key((s, v)) && label_covers(e[(s, v)], gs[0]) && path_cov(e, v, gs.drop_first(), t);
        lemma_path_cov_snoc(e, v, gs.drop_first(), t, g, u);
        assert(gs.push(g).drop_first() =~= gs.drop_first().push(g));
        assert(e.contains_key((s, v)) && label_covers(e[(s, v)], gs.push(g)[0]));
    }
}
pub proof fn lemma_path_cov_mono(e0: Map<(State, State), Grapheme>, e1: Map<(State, State), Grapheme>, s: State, gs: Seq<Grapheme>, t: State)
    requires path_cov(e0, s, gs, t), edges_cover(e0, e1)
    ensures path_cov(e1, s, gs, t)
    decreases gs.len()
{
    if gs.len() > 0 {
        let v = choose|v: State| #[trigger] e0.contains_key((s, v)) && label_covers(e0[(s, v)], gs[0]) && path_cov(e0, v, gs.drop_first(), t);
        lemma_path_cov_mono(e0, e1, v, gs.drop_first(), t);
        assert(e1.contains_key((s, v)) && label_covers(e1[(s, v)], gs[0]));
    }
}
pub proof fn lemma_edges_cover_trans(e0: Map<(State, State), Grapheme>, e1: Map<(State, State), Grapheme>, e2: Map<(State, State), Grapheme>)
    requires edges_cover(e0, e1), edges_cover(e1, e2)
    ensures edges_cover(e0, e2)
{
    assert forall|a: State, b: State| #[trigger] e0.contains_key((a, b)) implies e2.contains_key((a, b)) && label_covers(e2[(a, b)], e0[(a, b)]) by {
        assert(e1.contains_key((a, b)));
    }
}

pub open spec fn edges_wf(e: Map<(State, State), Grapheme>) -> bool { forall|a: State, b: State| #[trigger] e.contains_key((a, b)) ==> e[(a, b)].min <= e[(a, b)].max }

// ---- Dfa::from: every inserted cluster keeps an accepting path while later clusters are inserted
pub open spec fn accepted_cov(e: Map<(State, State), Grapheme>, init: State, finals: Set<usize>, gs: Seq<Grapheme>) -> bool {
    exists|last: State| #[trigger] path_cov(e, init, gs, last) && finals.contains(last.ix as usize)
}
pub proof fn lemma_accepted_mono(e0: Map<(State, State), Grapheme>, e1: Map<(State, State), Grapheme>, init: State, f0: Set<usize>, f1: Set<usize>, gs: Seq<Grapheme>)
    requires accepted_cov(e0, init, f0, gs), edges_cover(e0, e1), f0.subset_of(f1)
    ensures accepted_cov(e1, init, f1, gs)
{
    let last = choose|last: State| #[trigger] path_cov(e0, init, gs, last) && f0.contains(last.ix as usize);
    lemma_path_cov_mono(e0, e1, init, gs, last);
    assert(path_cov(e1, init, gs, last) && f1.contains(last.ix as usize));
}
