// Brzozowski's algebraic method (Expression::from, elimination loop): spec predicates and lemmas.  Spec and proof code only.
// Equation system over the right languages of the automaton's states:  rl(i) = U_j cat(lang(a[i][j]), rl(j))  U  lang(b[i]).
// `rl` and `rank` are uninterpreted: the contract of the loop holds for EVERY family of languages that solves the initial system
// and every ranking that witnesses acyclicity of the transition matrix.
pub uninterp spec fn rl(i: int) -> Lang;
pub uninterp spec fn rank(i: int) -> int;

pub type Row<'a> = Seq<Option<Expression<'a>>>;

pub open spec fn row_sum(row: Row, k: int) -> Lang
    decreases k
{
    if k <= 0 { ISet::empty() } else { row_sum(row, k - 1).union(cat(olang(row[k - 1]), rl(k - 1))) }
}
pub open spec fn row_ok(a: Seq<Row>, b: Row, i: int, k: int) -> bool { rl(i) == row_sum(a[i], k).union(olang(b[i])) }
pub open spec fn wf_dims(a: Seq<Row>, b: Row, n: int) -> bool {
    a.len() == n && b.len() == n && forall|i: int| 0 <= i < n ==> (#[trigger] a[i]).len() == n
}
pub open spec fn acyclic(a: Seq<Row>, n: int) -> bool {
    forall|i: int, j: int| 0 <= i < n && 0 <= j < n && (#[trigger] a[i][j]) is Some ==> rank(i) < rank(j)
}
// rows 0..m still mention exactly the variables 0..m
pub open spec fn system_ok(a: Seq<Row>, b: Row, m: int) -> bool { forall|i: int| 0 <= i < m ==> #[trigger] row_ok(a, b, i, m) }
// eliminated rows m..n are in triangular form: row i mentions only variables below i
pub open spec fn triangular(a: Seq<Row>, b: Row, m: int, n: int) -> bool { forall|i: int| m <= i < n ==> #[trigger] row_ok(a, b, i, i) }

// substitution of variable n into one row: new[j] = old[j] U x . rn[j]  for j < n
pub open spec fn row_updated(r0: Row, r1: Row, x: Lang, rn: Row, k: int) -> bool {
    forall|j: int| 0 <= j < k ==> olang(#[trigger] r1[j]) == olang(r0[j]).union(cat(x, olang(rn[j])))
}
pub proof fn lemma_row_update(r0: Row, r1: Row, x: Lang, rn: Row, k: int)
    requires row_updated(r0, r1, x, rn, k), 0 <= k
    ensures row_sum(r1, k) == row_sum(r0, k).union(cat(x, row_sum(rn, k)))
    decreases k
{
    broadcast use lang_lemmas;
    if k > 0 {
        lemma_row_update(r0, r1, x, rn, k - 1);
        let j = k - 1;
        assert(olang(r1[j]) == olang(r0[j]).union(cat(x, olang(rn[j]))));
        // cat(olang r1[j], rl j) = cat(olang r0[j], rl j) U cat(cat(x, olang rn[j]), rl j) = .. U cat(x, cat(olang rn[j], rl j))
        assert(cat(olang(r1[j]), rl(j)) == cat(olang(r0[j]), rl(j)).union(cat(x, cat(olang(rn[j]), rl(j)))));
        assert(cat(x, row_sum(rn, k)) == cat(x, row_sum(rn, k - 1)).union(cat(x, cat(olang(rn[j]), rl(j)))));
        assert(row_sum(r1, k) =~= row_sum(r0, k).union(cat(x, row_sum(rn, k))));
    } else {
        assert(row_sum(r1, k) =~= row_sum(r0, k).union(cat(x, row_sum(rn, k))));
    }
}
// a row that does not use variable n keeps its equation when the variable range shrinks
pub proof fn lemma_drop_unused(a: Seq<Row>, b: Row, i: int, n: int)
    requires row_ok(a, b, i, n + 1), a[i][n] is None, 0 <= n
    ensures row_ok(a, b, i, n)
{
    broadcast use lang_lemmas;
    assert(cat(olang(a[i][n]), rl(n)) =~= ISet::<Word>::empty());
    assert(row_sum(a[i], n + 1) =~= row_sum(a[i], n));
}
// the substitution step for one row i < n
pub proof fn lemma_reduce_row(a0: Seq<Row>, b0: Row, a1: Seq<Row>, b1: Row, i: int, n: int)
    requires
        0 <= n, row_ok(a0, b0, i, n + 1), row_ok(a0, b0, n, n),
        row_updated(a0[i], a1[i], olang(a0[i][n]), a0[n], n),
        olang(b1[i]) == olang(b0[i]).union(cat(olang(a0[i][n]), olang(b0[n]))),
    ensures row_ok(a1, b1, i, n)
{
    broadcast use lang_lemmas;
    let x = olang(a0[i][n]);
    lemma_row_update(a0[i], a1[i], x, a0[n], n);
    assert(rl(n) == row_sum(a0[n], n).union(olang(b0[n])));
    assert(cat(x, rl(n)) == cat(x, row_sum(a0[n], n)).union(cat(x, olang(b0[n]))));
    assert(row_sum(a0[i], n + 1) == row_sum(a0[i], n).union(cat(x, rl(n))));
    assert(row_sum(a1[i], n).union(olang(b1[i])) =~= row_sum(a0[i], n + 1).union(olang(b0[i])));
}
// row_sum only looks at the first k entries
pub proof fn lemma_row_sum_ext(r0: Row, r1: Row, k: int)
    requires forall|j: int| 0 <= j < k ==> r0[j] == r1[j]
    ensures row_sum(r0, k) == row_sum(r1, k)
    decreases k
{
    if k > 0 { lemma_row_sum_ext(r0, r1, k - 1); }
}
