#!/bin/sh
# Run once after a fresh restore, offline.  Builds the replay binary (path dependency on /repo) and warms nothing else:
# every check re-extracts from /repo's working tree and re-runs the verifier on every invocation.
cd "$(dirname "$0")" || exit 1
export CARGO_NET_OFFLINE=true
mkdir -p build evidence replay_out
python3 -m compileall -q vx units >/dev/null 2>&1
verus --version >/dev/null 2>&1 || { echo "verus not on PATH"; exit 1; }
cp /repo/Cargo.lock replay/Cargo.lock
( cd replay && CARGO_TARGET_DIR=../build/replay_target cargo build --offline --quiet ) || { echo "replay crate did not build (checks still work; witnesses will be reported as unavailable)"; }
exit 0
